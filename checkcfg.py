# Per-property configuration of the driver (/verif/check).
#   run: -test.run pattern; checks: -rapid.checks per rapid.Check call; shards: processes
PROPS = {
    "C07": dict(
        run="^(TestC07|TestC07EndToEnd)$",
        level="exploration",
        rule=("filters drawn from a reference AST generator (depth<=4, <=12 leaves, vocabulary of names/values incl. empty, quoted, keyword-like, unicode, "
              "prefix-related strings, random spelling/whitespace) paired with attribute maps biased to the filter's own names/values; oracle: reference evaluator "
              "(differential), boolean laws on the real evaluator (metamorphic), bounded-exhaustive enumeration, and publish->pull through gRPC; "
              "a case = (filter, attribute map); non-trivial = filter has >=2 operators and the map makes >=1 leaf true and >=1 leaf false; distinct by hash of (filter text, map)"),
        assumptions=["'!=' on an absent attribute is false (documented ambiguity resolved to current behaviour)",
                     "keyword-like names are always written quoted by the generator"],
        quick=dict(checks=1500, timeout=900),
        thorough=dict(checks=20000, shards=16, timeout=3000),
    ),
    "C08": dict(
        run="^(TestC08|TestC08Grpc|TestC08DeepNest)$",
        level="exploration",
        rule=("token sequences generated from the grammar (every expression shape to depth 4 / 12 leaves, every quoting and escape form, whitespace variants) and 1-2 token-level "
              "mutations of them (delete, duplicate, swap, replace, insert); oracle: independent token-level recogniser (IN => accepted with the reference AST, OUT => rejected, "
              "always returns), AsFilter round trip (re-parses to the same AST, evaluates identically), and Create/UpdateSubscription store IN verbatim and never store OUT; "
              "non-trivial = sentence with >=3 token classes, or a mutation whose verdict differs from its parent's; distinct by hash of the text"),
        assumptions=["inputs are capped at 4 KiB and nesting depth 200 (deeper nesting is probed separately by the deep-nesting canary)",
                     "a bare keyword used as an attribute name, and lexical forms outside the documented subset (comments, raw strings, numbers), are UNSPECIFIED: only no-crash and round-trip are checked"],
        quick=dict(checks=3000, timeout=900, env={"VERIF_GRPC_DIV": 10}),
        thorough=dict(checks=40000, shards=16, timeout=3000, env={"VERIF_GRPC_DIV": 20}, fuzz=[dict(target="FuzzC08Filter", seconds=180)]),
    ),
    "C05": dict(
        run="^TestC05$",
        level="exploration",
        rule=("histories of 8-30 (thorough: 60) real API calls on ordered subscriptions drawn by a rapid state machine from the reference model's state: single and batched publishes mixing "
              "3 ordering keys and un-keyed messages, pulls of size 1..1000, acks in any order, stream acks/nacks, modacks, lease and retention lapses (virtual clock), dead-lettering of "
              "predecessors, seeks and prune jobs, followed by a drain; oracle: reference model - a pull never returns a message whose earlier same-key message is still outstanding, "
              "and blocked successors do arrive once predecessors settle; non-trivial = at some pull a same-key predecessor was outstanding while a message with another key or no key had "
              "been published between the two; distinct by hash of the operation list"),
        assumptions=["virtual clock: time.Now/Since/Until in actions/ and services/ are redirected by the build overlay", "SQLite backend only",
                     "forwards into an ordered dead-letter subscription from different source topics with one key are not ordered by the statement (treated as 'may')"],
        quick=dict(checks=900, timeout=900),
        thorough=dict(checks=600, shards=16, timeout=3000),
    ),
    "C01": dict(
        run="^TestC01$",
        level="exploration",
        rule="histories of real API calls drawn by a rapid state machine from the reference model's current state (virtual clock; profile C01), followed by a drain phase where stated; oracle: observation-driven reference model of Pub/Sub semantics (must / must-not / may sets per pull); 1-3 topics, 1-4 subscriptions with every configuration dimension, publishes, pulls, acks, modacks, stream nacks, seeks, snapshots, sweeps, prune jobs, expiry runs, failed requests, clock advances, then drain until the model owes nothing; non-trivial = history with >=1 redelivery after a lease lapse or nack and >=1 of {seek, sweep, prune job, delete}; distinct by hash of the operation list",
        assumptions=['virtual clock: time.Now/Since/Until in actions/ and services/ are redirected by the build overlay', 'SQLite backend only', "every time comparison carries a 10 ms margin; anything inside a margin or inside the <1 s jitter window is 'may'"],
        quick=dict(checks=1200, timeout=1200),
        thorough=dict(checks=700, shards=16, timeout=3000),
    ),
    "C02": dict(
        run="^TestC02$",
        level="exploration",
        rule="histories of real API calls drawn by a rapid state machine from the reference model's current state (virtual clock; profile C02), followed by a drain phase where stated; oracle: observation-driven reference model of Pub/Sub semantics (must / must-not / may sets per pull); payloads from a JSON corpus (whitespace, unicode, HTML-sensitive, huge numbers) and generated strings, attribute maps, unicode ordering keys; fidelity by JSON value equality; independence: every subscription has its own must / must-not sets in the model, so interference from a sibling subscription's acks, seeks, deletes or filters shows as a missing or not-rightful delivery on the victim; non-trivial = a pull response with >=2 messages on a topic with >=2 subscriptions with different filters; distinct by hash of the operation list",
        assumptions=['virtual clock: time.Now/Since/Until in actions/ and services/ are redirected by the build overlay', 'SQLite backend only', "every time comparison carries a 10 ms margin; anything inside a margin or inside the <1 s jitter window is 'may'"],
        quick=dict(checks=1600, timeout=1200),
        thorough=dict(checks=600, shards=16, timeout=3000),
    ),
    "C03": dict(
        run="^TestC03$",
        level="exploration",
        rule="histories of real API calls drawn by a rapid state machine from the reference model's current state (virtual clock; profile C03), followed by a drain phase where stated; oracle: observation-driven reference model of Pub/Sub semantics (must / must-not / may sets per pull); biased to pull / ack / duplicate ack / foreign and unknown ids / nack-after-ack / modack-after-ack / sweeps / lease lapses; non-trivial = an acknowledged id is later nacked or modacked and >=2 later pulls see it as acked; distinct by hash of the operation list",
        assumptions=['virtual clock: time.Now/Since/Until in actions/ and services/ are redirected by the build overlay', 'SQLite backend only', "every time comparison carries a 10 ms margin; anything inside a margin or inside the <1 s jitter window is 'may'"],
        quick=dict(checks=500, timeout=1200),
        thorough=dict(checks=700, shards=16, timeout=3000),
    ),
    "C04": dict(
        run="^(TestC04|TestC04Concurrent|TestC04WaitingPull|TestC04Stress|TestC04StreamModack)$",
        level="exploration",
        rule="histories of real API calls drawn by a rapid state machine from the reference model's current state (virtual clock; profile C04), followed by a drain phase where stated; oracle: observation-driven reference model of Pub/Sub semantics (must / must-not / may sets per pull); one or two subscriptions, retry policies absent / min only / max only / both from 100 ms to hours, up to 140 steps of pull / modack / nack / advance landing just before and just after each deadline; non-trivial = a message reaches attempt >=3 with at least one modack in between (sequential); >=2 pullers whose four transaction boundaries each are interleaved by the harness - all 70 merge orders for two pullers in the thorough tier, a third of them in quick, sampled orders for three pullers - inside one lease window (concurrent); waiting-consumer scripts on the real clock (one case in 30, thorough one in 10): retry policy 200-900 ms, 1-3 messages taken as attempt 1 and never answered, then a blocking Pull or a StreamingPull that is already waiting when the lease lapses - it must receive nothing before the deadline (-30 ms) and the message as attempt 2 within deadline + jitter + 1.2 s (3-of-3), i.e. through the pull's own retry timer since nothing commits at that moment; stress runs on the real clock (one case in 20, thorough one in 6): 1-3 publishers and 2-4 pullers of ONE subscription running at the same time over real gRPC (10-120 messages, batch sizes 1/3/10, max_messages 1/2/5/100, ordered or not, some acks deferred to the end), failed requests (SQLite busy) simply repeated - oracle: within the run, which is far shorter than the 10 s default lease, every accepted message id is delivered exactly once, as attempt 1, and none is missing after 20 consecutive empty responses following the last publish; the sampling of the real-clock parts mixes the drawn value because rapid favours boundary values; distinct by hash of the operation list. Stream modify-deadline lists (TestC04StreamModack, real clock, real StreamingPull RPC, one case in 40, thorough one in 10): 2-6 messages outstanding on a stream under a lease of at least 5 minutes, then ONE request whose modify-deadline list gives each message 0, 20 or 60 seconds or leaves it out, in generated order (the handler splits the list into runs of equal deadlines); oracle over a 900 ms window: a message whose deadline was postponed or left alone is never handed out again (an invariant, counts at once), every message given deadline 0 comes back as attempt 2 (3-of-3); non-trivial there = at least two distinct deadlines in the request",
        assumptions=['virtual clock: time.Now/Since/Until in actions/ and services/ are redirected by the build overlay', 'SQLite backend only', "every time comparison carries a 10 ms margin; anything inside a margin or inside the <1 s jitter window is 'may'"],
        quick=dict(checks=800, timeout=1200),
        thorough=dict(checks=500, shards=16, timeout=3000),
    ),
    "C06": dict(
        run="^(TestC06|TestC06Race)$",
        level="exploration",
        rule="histories of real API calls drawn by a rapid state machine from the reference model's current state (virtual clock; profile C06), followed by a drain phase where stated; oracle: observation-driven reference model of Pub/Sub semantics (must / must-not / may sets per pull); N in 1..4 and default, dead-letter topics with 0..3 subscriptions (filtered, ordered), deleted dead-letter topics, chains, pull / nack / modack / ack / advance / sweep in any order; self-loop topologies excluded by construction; non-trivial = history in which at least one message is forwarded to a dead-letter topic; race runs (TestC06Race, one case in 4): 1-12 messages that have used up a single permitted attempt and are due again, then 2-6 of {pull on the source, background sweep, stream nack of the same deliveries} fired at the same moment from separate goroutines - every message ends up exactly once on the dead-letter subscription (delivery rows counted) and is not delivered on the source again, whoever wins and whichever request fails; distinct by hash of the operation list",
        assumptions=['virtual clock: time.Now/Since/Until in actions/ and services/ are redirected by the build overlay', 'SQLite backend only', "every time comparison carries a 10 ms margin; anything inside a margin or inside the <1 s jitter window is 'may'"],
        quick=dict(checks=1200, timeout=1200),
        thorough=dict(checks=700, shards=16, timeout=3000),
    ),
    "C13": dict(
        run="^TestC13$",
        extra_runs=[dict(run="^TestC13TZ$", env={"TZ": "Asia/Kolkata", "VERIF_TZ_SLICE": "1"})],
        level="exploration",
        rule="histories of real API calls drawn by a rapid state machine from the reference model's current state (virtual clock; profile C13), followed by a drain phase where stated; oracle: observation-driven reference model of Pub/Sub semantics (must / must-not / may sets per pull); publish / pull / partial ack / snapshot / seek to times (past, exact publish time, now, future) and to snapshots of the same or a same-filter sibling subscription, repeated seeks, then drain; non-trivial = a seek both acknowledges >=1 outstanding message and revives >=1 acknowledged message; distinct by hash of the operation list",
        assumptions=['virtual clock: time.Now/Since/Until in actions/ and services/ are redirected by the build overlay', 'SQLite backend only', "every time comparison carries a 10 ms margin; anything inside a margin or inside the <1 s jitter window is 'may'"],
        quick=dict(checks=600, timeout=1200),
        thorough=dict(checks=700, shards=16, timeout=3000),
    ),
    "C14": dict(
        run="^TestC14$",
        level="exploration",
        rule="histories of real API calls drawn by a rapid state machine from the reference model's current state (virtual clock; profile C14), followed by a drain phase where stated; oracle: observation-driven reference model of Pub/Sub semantics (must / must-not / may sets per pull); retention 10 min..30 d, TTL 1 d..60 d with expiration_policy updates, injected delay through the real DelayInjectorController, advances landing 30 ms before / after each deadline, expiry sweeps with batch 1 and 100; non-trivial = a retention, TTL or delay deadline is observed from the forbidden side (a pull that must not return the message / a sweep around a TTL) in a history that also delivers messages; distinct by hash of the operation list",
        assumptions=['virtual clock: time.Now/Since/Until in actions/ and services/ are redirected by the build overlay', 'SQLite backend only', "every time comparison carries a 10 ms margin; anything inside a margin or inside the <1 s jitter window is 'may'"],
        quick=dict(checks=1200, timeout=1200),
        thorough=dict(checks=700, shards=16, timeout=3000),
    ),
    "C16": dict(
        run="^TestC16$",
        level="exploration",
        rule=("sequences of 1-12 requests over all 25 Publisher/Subscriber RPCs (22 implemented, 3 unimplemented, StreamingPull openings included), every field drawn from a boundary domain "
              "(names: live / deleted / unknown / wrong kind / empty / malformed; int32: min, -1, 0, 1, max; durations and timestamps: nil, zero, negative, huge, out-of-range nanos; nested "
              "messages absent / empty / filled; ack ids live / acked / foreign / unknown / malformed; update masks nil / empty / unknown / repeated; payloads JSON / non-JSON / empty; page "
              "tokens valid / garbage) against a populated server with the production interceptor chain over an in-memory connection; oracle: every call returns a gRPC status, no handler "
              "panic, a trivial follow-up call still works, and a non-OK answer leaves a full dump of the five tables unchanged; every case is non-trivial (each request carries boundary "
              "values on a populated server); distinct by hash of (method, request)"),
        assumptions=["a failing Pull / StreamingPull may still refresh subscriptions.expires_at (documented separate transaction)", "handler panics are caught by a recover shim placed innermost in the interceptor chain and counted as crashes",
                     "SQLite backend only"],
        quick=dict(checks=1200, timeout=900),
        thorough=dict(checks=2500, shards=16, timeout=3000),
    ),
    "C09": dict(
        run="^TestC09$",
        level="fault_enumeration",
        rule=("for each rapid-drawn populated state (2-4 messages, ordering on/off, keys, acked/leased/dead-letter-due deliveries, 0-2 dead-letter subscriptions incl. filtered, a snapshot, "
              "deleted and expired resources) and each of 31 mutating operations (publish 1/3, create/delete/update topic and subscription, push config, ack, modack +/0, pull, pull that "
              "dead-letters, stream ack+nack, stream nack that dead-letters, stream modify-deadline, seek to time (rewind / forward) and to snapshot, create/delete snapshot, dead-letter sweep, "
              "7 prune/expire jobs, each run through the production prune service's own runOnce - begin, execute, commit-or-rollback - on ONE service instance that is reused for every run, as the real service reuses its action): the operation is run fault-free under a counting database driver, then once per event index k (BEGIN, every statement, COMMIT) with that event failing, "
              "once with the request cancelled just before it, once with the request cancelled right after it completed (statements only; database/sql then rolls the transaction back on its own, so the next statement or the COMMIT meets a transaction that is gone - the report must still agree with what was stored), and - for the handlers wrapped in the deadlock-retry loop - once with a synthetic deadlock error at k; oracle: error reported, "
              "full dump of the five tables unchanged, no waiter notified, retry from the same clock/UUID state reproduces the fault-free dump byte for byte (deadlock: request succeeds with "
              "that same dump); non-trivial = the faulted event is a write or the commit and follows an earlier write in the same transaction; distinct by (state, operation, k, mode)"),
        assumptions=["faults are injected at the database/sql driver boundary (statement granularity); torn writes inside SQLite are SQLite's contract",
                     "Pull's refresh of subscriptions.expires_at is a deliberate separate transaction and may persist when the pull's second transaction fails",
                     "a cancellation that arrives while COMMIT is executing may yield either the old or the new state, never a mixture", "SQLite backend only; the PostgreSQL deadlock retry loop is driven with a synthetic 40P01 error"],
        quick=dict(checks=8, timeout=900),
        thorough=dict(checks=12, shards=16, timeout=3000),
    ),
    "C12": dict(
        run="^TestC12$",
        level="exploration",
        rule=("histories of 8-40 (thorough: 80) create / delete / get / list / re-create / concurrent-create operations on topics, subscriptions and snapshots in 8 projects whose names differ by case, "
              "are prefixes of one another or contain LIKE wildcards and the LIKE escape character (p, P, p_, p%, pq, p.q, p\\, e-acute), short names likewise, page sizes 1,2,3,5,100,0,-1; "
              "oracle: model = set of live names per kind: exact status codes (AlreadyExists / NotFound / OK), Get OK iff live with the current incarnation's settings, every List walked to the "
              "end returns the project's live set exactly once each and nothing foreign, 2-8 racing creates of one name have exactly one winner, a re-created subscription inherits no backlog, "
              "settings or ack ids and a re-created topic does not feed the old topic's subscriptions; non-trivial = live resources in >=2 related projects and a list walked over >1 page; "
              "distinct by hash of the operation list"),
        assumptions=["SQLite backend only (unique-violation mapping under a true race is PostgreSQL-only)", "virtual clock"],
        quick=dict(checks=800, timeout=900),
        thorough=dict(checks=1200, shards=16, timeout=3000),
    ),
    "C17": dict(
        run="^TestC17$",
        level="exploration",
        rule=("(i)+(ii) a generated subscription configuration (every optional block absent / empty / filled: labels, filter, ordering, retention and TTL from 1 ns to 100 years with nanosecond "
              "fractions, retry policy halves, dead-letter policy, push endpoint) is created and then updated 0-5 times with random mask subsets of the 8 updatable paths (sometimes adding a "
              "forbidden or unknown path, first or last); after every step GetSubscription and ListSubscriptions must equal the model of the stored configuration (documented defaults filled "
              "in, only masked fields changed, a bad path changes nothing); topics likewise for labels; (iii) codec: edge-biased durations through Interval.Value -> Scan and JSON, and "
              "PostgreSQL-style interval strings from an independent formatter (years/mons/days, signs, singular/plural, optional time part, 1-9 fraction digits) against the reference value; "
              "non-trivial = configuration with >=3 non-default blocks or a mask of >=2 paths applied after another update; duration not a whole second; interval string with >=2 unit fields; "
              "distinct by hash of the request sequence / value"),
        assumptions=["ack_deadline_seconds is a derived field and not compared", "absent and empty retry policy / labels are equivalent", "negative durations are C16's domain, not generated here",
                     "storage exactness is for the SQLite text encoding; PostgreSQL's microsecond rounding cannot be observed here"],
        quick=dict(checks=1500, timeout=900),
        thorough=dict(checks=20000, shards=16, timeout=3000, fuzz=[dict(target="FuzzC17Interval", seconds=120)]),
    ),
    "C15": dict(
        run="^TestC15$",
        level="exploration",
        rule=("metamorphic pairs: a model-driven history H' of 12-45 (thorough: 70) API calls with the six prune jobs spliced in at generated positions (kind, minimum age 0 / 1 s / 1 h, batch 1 / 3 / 100) "
              "is run, then the same history H without the jobs, on fresh state with identical clock and UUID seeds; the client-visible traces (status codes, Get results, pull results as "
              "message#@attempt sets for pulls in which the model leaves the implementation no freedom, sizes for truncated pulls) must be equal; after every job no live topic / subscription, "
              "outstanding delivery or message of an outstanding delivery may have disappeared (row-id comparison); convergence: the history ends with everything (or every other resource) deleted, "
              "the clock passes the age threshold, and rounds of all 7 jobs + the dead-letter sweep in 3-8 generated orders and batch sizes must reach a round that deletes nothing, after which no "
              "job may fail and no deleted / completed / expired / orphaned row may remain; non-trivial (pairs) = >=3 spliced jobs of which at least one deleted rows; distinct by hash of the history"),
        assumptions=["subscription expiry and the dead-letter sweep are part of the history itself, not of the spliced maintenance (they have client-visible semantics of their own: C14, C06)",
                     "after a rewinding seek that meets deliveries a prune-completed job may have removed, traces are no longer compared (README: acked messages are retained only until pruned); counted in excluded_by_construction",
                     "virtual clock; SQLite only"],
        quick=dict(checks=800, timeout=1200),
        thorough=dict(checks=500, shards=16, timeout=3000),
    ),
    "C18": dict(
        run="^TestC18$",
        race=True,
        level="exploration",
        rule=("rapid draws 1-3 fault descriptions (operation, parameter subsets / supersets / disjoint sets, counts -1,0,1..20) and 1-64 calls (most sharing one parameter map so that they contend, "
              "some with other parameters or another operation) spread over 1-16 goroutines released from a barrier; every configuration is run 40 (thorough: 300) times under the race detector because "
              "the decrement race is schedule dependent; oracle (sound for every linearisation): a description fires at most its count, only on calls that match it, with distinct remaining values; a "
              "call that was not failed implies every description matching it is exhausted; with a single description exactly min(count, matching calls) calls fail; Current() lists exactly the "
              "unexhausted descriptions with the right remaining counts; plus sequences of different request types through the gRPC fault interceptor (parameter extraction, pooled maps) and a fault "
              "injected into the running server hit by concurrent clients; non-trivial = >=2 goroutines and more matching calls than the description's count; distinct by hash of the configuration"),
        assumptions=["schedules are sampled by the Go scheduler under -race (not enumerated)"],
        quick=dict(checks=400, timeout=900),
        thorough=dict(checks=1500, shards=8, timeout=3000),
    ),
    "C10": dict(
        run="^(TestC10|TestC10Stress)$",
        level="exploration",
        rule=("(1) notifier layer: generated sets of waiters on 1-4 subscriptions and one notification naming 1-5 subscription ids in any order (ids without waiters, repeats): exactly the waiters of the "
              "named subscriptions are woken; (2) schedules: 1-2 waiting pulls (the real action with a 40 s timeout, or a StreamingPull-style streamer) on 1-3 subscriptions and one writer drawn from "
              "{publish to a topic with several subscriptions, zero-deadline ModifyAckDeadline of ids spanning subscriptions in every order, ack of an ordered predecessor, stream nack that "
              "dead-letters an ordered predecessor, dead-letter forward into the waiter's topic by nack and by the sweep, seek backwards, a seek to a time / to a sibling's snapshot that revives nothing and only acknowledges the leased predecessor of a held-back same-key message}; a wrapping database driver parks each waiter at a "
              "generated transaction boundary - before its first transaction, between its transactions, before its query, after the commit of its empty query but before it waits, or already "
              "waiting - while the writer runs to completion; oracle: every waiter returns the message within 2 s of the writer's commit (a miss must reproduce 3 times out of 3 from the same "
              "schedule); stress pairs (TestC10Stress: 150, thorough 600): a blocking Pull and a Publish issued 0-3 ms apart in either order with no schedule control - the pull must come back with the message; still waiting 3.5 s after the publish returned while the message sits unattempted in the subscription = lost wake-up (low power for microsecond windows, which the scheduler placements cover; it is there for start-up and registration races); non-trivial = the writer commits inside the check-to-wait window, or one request touches >=2 subscriptions; distinct by hash of the schedule"),
        assumptions=["bounded-response check of a liveness-flavoured statement (2 s bound, waiter timeout 40 s, every retry timer 10 min away)", "real clock; SQLite: transactions are serial, so transaction-boundary placements are the interleavings",
                     "the external-notifier (PostgreSQL LISTEN/NOTIFY) path is not run"],
        quick=dict(checks=150, timeout=900, shrinktime="10s"),
        thorough=dict(checks=600, shards=8, timeout=3000),
    ),
    "C11": dict(
        run="^(TestC11|TestC11StartupRace|TestC11MultiStream)$",
        level="exploration",
        rule=("scripts against the real MessageStreamer - two in three through a scripted StreamConnection, one in three through the real StreamingPull RPC over gRPC (limits in the initial request, acks in ack_ids, nacks as modify-deadline 0, and a `mixed` step that puts deadline 0 for some ack ids and 30 s for others into ONE request): flow-control limits (max messages 1,2,3,5,1000; max bytes below / at / above the payload sizes 12, 200, 5000), "
              "1-8 initial messages of mixed sizes, then 2-9 steps drawn from {stream ack, stream nack, gRPC-style nack (modify-deadline 0), over gRPC also a `mixed` request carrying a zero-deadline group and a 30 s group in either order (drawn), Acknowledge outside the stream (one call, one call per id back to back, or concurrent calls), "
              "`extack-window`: two outside Acknowledge calls of which the second is placed by the gate scheduler while a goroutine of the stream is held right after a query it made outside a transaction, publish more, wait}; multi-stream runs (TestC11MultiStream, one case in 4, real clock and real concurrency): 2-3 real StreamingPull streams on ONE subscription with limits 1/2/3/10, clients that hold a message 0-5 ms and answer on the stream or with outside Acknowledge calls, a publisher publishing 10-60 messages in batches meanwhile - every stream keeps to its own limit at every moment, every message reaches exactly one stream exactly once, and all arrive within a bound derived from the limits and hold times (3-of-3); start-up scripts (TestC11StartupRace: 40, thorough 150 runs of the minimal script \"limit 1 message, two messages, the first acknowledged outside the stream from inside its send call\" with the process kept busy by 2 x NumCPU spinning goroutines, no-send bound 6 s); in a quarter of the scripted-connection scripts the client answers the first 1-3 deliveries from inside the send call (stream ack or outside Acknowledge, then the send call is held 40 ms) so that the answer is digested before the send returns; "
              "oracle: at every Send/SendBatch the messages outstanding from the client's point of view stay within max messages and max bytes (except a single oversized message sent on an empty "
              "window), no delivery is sent twice while outstanding, and whenever the client-side window has room for a deliverable message that fits, a send happens within 2 s (messages made deliverable by one request share a retry time, their fetch order is undefined and only a send that is owed under every order is demanded; a stall must "
              "reproduce 3 of 3); non-trivial = the window filled up at least once and capacity was later freed; distinct by hash of the script"),
        assumptions=["real clock; leases are 10 minutes so nothing is redelivered on its own within a script", "a lease lapse without ack/nack is not treated as a capacity-freeing event (the statement lists ack, nack and external ack)",
                     "the stream's own goroutine interleavings are sampled by running in real time, not enumerated"],
        quick=dict(checks=120, timeout=900, shrinktime="10s"),
        thorough=dict(checks=500, shards=8, timeout=3000),
    ),
    "C19": dict(
        run="^(TestC19|TestC19Lifecycle|TestC19Adapter)$",
        level="exploration",
        rule=("scripts for a scripted HTTP endpoint (an http.RoundTripper, no sockets): 1-12 (thorough: 30) messages with JSON payloads / attribute maps / ordering keys as in C02, each with a planned "
              "sequence of replies per push - 0-2 failures drawn from every non-success status 100-599 and transport errors (quick: a seed-dependent seventh of 200-599 plus the neighbours of the "
              "success codes; thorough: all 400), then a success (200/201/202/204/102) - fast, held 5-120 ms so that replies complete out of order, or slow (a real 1.05 s, at most 3 per script); "
              "one in four scripts runs through the services push manager with the subscription's push_config set over gRPC, the others through a bare pusher; oracle: every POST body is the "
              "documented envelope (base64 payload equal as JSON value, attributes, messageId == Publish id, orderingKey, RFC 3339 publishTime, subscription, deliveryAttempt == push number), a "
              "success is final (never pushed again, delivery acknowledged in storage), any other outcome is followed by another push, concurrency seen by the endpoint <= min(1000, 1 + fast "
              "successes so far); non-trivial = a message failed at least once before succeeding and the window grew beyond 1; distinct by hash of the script. Lifecycle scripts (TestC19Lifecycle, same case count): the push "
              "manager service runs while 3-12 generated operations create subscriptions in push or pull mode (3 endpoints), switch endpoint or mode with ModifyPushConfig / UpdateSubscription(push_config), "
              "delete and re-create them, and publish; endpoints answer 204 only at the URL the subscription is configured with at that moment (503 elsewhere, so a push racing a change is retried); "
              "oracle: after every publish each live push subscription receives the message at its CURRENT endpoint within 4 s (3-of-3); non-trivial there = a publish after an endpoint switch. Adapter sequences (TestC19Adapter, same case count, 20-400 steps each, no clock and no HTTP): outcomes of POSTs - fast success, slow success, failure - are queued directly into the pusher's stream adapter (at most 10 per kind, the production queue size) interleaved with Receive calls; oracle: whatever batching Receive chooses, a success is reported as an ack and only as an ack, a failure as a nack and only as a nack, each exactly once, nothing invented or lost, the window stays within 1..1000 and equals the announced one; non-trivial there = a Receive with a failure and another kind of outcome queued at the same moment"),
        assumptions=["real clock (the pusher's fast/slow threshold and the HTTP round trip are wall-clock); retry policy 400-500 ms (the lease must comfortably exceed the latency of the ack transaction, or a slow ack legitimately leads to a second push)", "bounded waits with 3-of-3 confirmation for the 'pushed again' / 'pushed at all' clauses"],
        quick=dict(checks=30, timeout=900, shrinktime="120s"),
        thorough=dict(checks=120, shards=8, timeout=3000, shrinktime="120s"),
    ),
}
