# Per-property configuration of the driver (/verif/check).
#   run: -test.run pattern; checks: -rapid.checks per rapid.Check call; shards: processes
PROPS = {
    "C07": dict(
        run="^(TestC07|TestC07EndToEnd)$",
        level="exploration",
        rule=("filters drawn from a reference AST generator (depth<=4, <=12 leaves, vocabulary of names/values incl. empty, quoted, keyword-like, unicode, "
              "prefix-related strings, random spelling/whitespace) paired with attribute maps biased to the filter's own names/values; oracle: reference evaluator "
              "(differential), boolean laws on the real evaluator (metamorphic), bounded-exhaustive enumeration, and publish->pull through gRPC; "
              "a case = (filter, attribute map); non-trivial = filter has >=2 operators and the map makes >=1 leaf true and >=1 leaf false; distinct by hash of (filter text, map)"),
        assumptions=["'!=' on an absent attribute is false (documented ambiguity resolved to current behaviour)",
                     "keyword-like names are always written quoted by the generator"],
        quick=dict(checks=1500, timeout=900),
        thorough=dict(checks=20000, shards=16, timeout=3000),
    ),
    "C08": dict(
        run="^(TestC08|TestC08Grpc|TestC08DeepNest)$",
        level="exploration",
        rule=("token sequences generated from the grammar (every expression shape to depth 4 / 12 leaves, every quoting and escape form, whitespace variants) and 1-2 token-level "
              "mutations of them (delete, duplicate, swap, replace, insert); oracle: independent token-level recogniser (IN => accepted with the reference AST, OUT => rejected, "
              "always returns), AsFilter round trip (re-parses to the same AST, evaluates identically), and Create/UpdateSubscription store IN verbatim and never store OUT; "
              "non-trivial = sentence with >=3 token classes, or a mutation whose verdict differs from its parent's; distinct by hash of the text"),
        assumptions=["inputs are capped at 4 KiB and nesting depth 200 (deeper nesting is probed separately by the deep-nesting canary)",
                     "a bare keyword used as an attribute name, and lexical forms outside the documented subset (comments, raw strings, numbers), are UNSPECIFIED: only no-crash and round-trip are checked"],
        quick=dict(checks=3000, timeout=900, env={"VERIF_GRPC_DIV": 10}),
        thorough=dict(checks=40000, shards=16, timeout=3000, env={"VERIF_GRPC_DIV": 20}),
    ),
}
