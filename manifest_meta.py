# Descriptive metadata for MANIFEST.json (see tools_mkmanifest.py).
ENGINES = [
    {"name": "E4-grammar", "path": "/verif/harness/filt + props/c07_test.go, c08_test.go", "serves_properties": ["C07", "C08"],
     "kind_free_text": "rapid generators over a reference AST / token grammar, independent recogniser + evaluator, metamorphic laws, bounded-exhaustive enumeration, native go fuzz target"},
]
NOTES = ("All checks are property-based tests / fuzzers (pgregory.net/rapid v1.3.0 + go test -fuzz) run against the real code built from /repo's current tree through a build overlay. "
         "VERIF_SEED selects the rapid seed (0 is remapped to 1). Exit 2 = infrastructure trouble, never a verdict.")
NOT_APPLICABLE = {}
META = {
    "C07": dict(engine="E4-grammar", design_ref="DESIGN.md section 3 C07",
        technique="property-based differential testing against a reference evaluator + metamorphic boolean laws + bounded-exhaustive enumeration (rapid)",
        level_text="Generated (filter, attribute map) pairs: the real parser+evaluator must agree with an independent reference evaluator, obey double negation / De Morgan / commutativity / parenthesisation / associativity, and a filtered subscription over gRPC must receive exactly the messages the reference accepts. The small-shape sub-space (<=2 leaves x 64 maps, 3-leaf shapes x 16 maps) is enumerated completely. Exploration: nothing is established beyond the generated cases.",
        level_note="Trusts the reference evaluator in /verif/harness/filt (60 lines, written from the documented semantics) and the renderer that turns ASTs into text; '!=' on an absent key is taken to be false."),
    "C08": dict(engine="E4-grammar", design_ref="DESIGN.md section 3 C08",
        technique="grammar-based generation + token-level mutation against an independent recogniser, print/parse round-trip, gRPC create/update store check (rapid); native fuzz target in the thorough tier",
        level_text="Sentences generated from the grammar and their single/double token mutations get a verdict from an independent recogniser; the real parser must accept exactly the IN ones with the same AST, reject the OUT ones with an error, never panic, and every accepted filter must survive AsFilter -> parse unchanged. Through gRPC, rejected filters are never stored and accepted ones are stored verbatim. Deep nesting (10^3..10^6) is probed in a child process. Exploration within 4 KiB / depth 200.",
        level_note="Trusts the token-level recogniser in /verif/harness/filt; lexical forms outside the documented subset and bare keywords as names are UNSPECIFIED (only no-crash + round-trip are required of them)."),
}
