//go:build verif

package actions

import (
	"time"

	"context"

	"github.com/google/uuid"

	"go.6river.tech/mmmbbb/ent"
	"go.6river.tech/mmmbbb/logging"
)

// VerifAcksNacks runs the streamer's ack/nack transaction (the code path a
// StreamingPull / push connection uses for stream acks and nacks).
func VerifAcksNacks(ctx context.Context, client *ent.Client, acks, nacks []uuid.UUID) error {
	ms := &MessageStreamer{Client: client, Logger: logging.GetLogger("verif/streamer")}
	return ms.doAcksNacks(ctx, acks, nacks)
}

// VerifDelay runs the streamer's modify-deadline transaction.
func VerifDelay(ctx context.Context, client *ent.Client, ids []uuid.UUID, secs float64) error {
	ms := &MessageStreamer{Client: client, Logger: logging.GetLogger("verif/streamer")}
	return ms.doDelay(ctx, ids, secondsToDuration(secs))
}

func secondsToDuration(s float64) (d time.Duration) { return time.Duration(s * 1e9) }
