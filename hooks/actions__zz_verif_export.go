//go:build verif

package actions

import (
	"time"

	"context"

	"github.com/google/uuid"

	"go.6river.tech/mmmbbb/ent"
	"go.6river.tech/mmmbbb/logging"
)

// VerifAcksNacks runs the streamer's ack/nack transaction (the code path a
// StreamingPull / push connection uses for stream acks and nacks).
func VerifAcksNacks(ctx context.Context, client *ent.Client, acks, nacks []uuid.UUID) error {
	ms := &MessageStreamer{Client: client, Logger: logging.GetLogger("verif/streamer")}
	return ms.doAcksNacks(ctx, acks, nacks)
}

// VerifDelay runs the streamer's modify-deadline transaction.
func VerifDelay(ctx context.Context, client *ent.Client, ids []uuid.UUID, secs float64) error {
	ms := &MessageStreamer{Client: client, Logger: logging.GetLogger("verif/streamer")}
	return ms.doDelay(ctx, ids, secondsToDuration(secs))
}

func secondsToDuration(s float64) (d time.Duration) { return time.Duration(s * 1e9) }

// VerifPushConn exposes the HTTP pusher's stream adapter (the object that turns
// the outcome of each POST into acks / nacks and a flow-control window) so that
// outcomes can be queued directly: kind 0 = fast success, 1 = slow success,
// 2 = failure. Queues hold 10 entries each, as in production.
type VerifPushConn struct{ c *httpPushStreamConn }

func NewVerifPushConn() *VerifPushConn {
	return &VerifPushConn{newHttpPushConn("projects/p/subscriptions/s", uuid.New(), "http://127.0.0.1:9/", nil)}
}

func (v *VerifPushConn) Queue(kind int, id uuid.UUID) {
	switch kind {
	case 0:
		v.c.fastAckQueue <- id
	case 1:
		v.c.slowAckQueue <- id
	default:
		v.c.nackQueue <- id
	}
}

func (v *VerifPushConn) Receive(ctx context.Context) (*MessageStreamRequest, error) {
	return v.c.Receive(ctx)
}

func (v *VerifPushConn) Window() int {
	v.c.mu.Lock()
	defer v.c.mu.Unlock()
	return v.c.maxMessages
}
