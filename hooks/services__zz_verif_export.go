//go:build verif

package services

// VerifHttpPusher returns the push manager service (the component that starts
// one HTTP pusher per push subscription) so the harness can run it in process.
func VerifHttpPusher() Service { return &httpPusher{} }
