//go:build verif

package services

import (
	"context"
	"fmt"
	"time"

	"go.6river.tech/mmmbbb/ent"
)

// VerifHttpPusher returns the push manager service (the component that starts
// one HTTP pusher per push subscription) so the harness can run it in process.
func VerifHttpPusher() Service { return &httpPusher{} }

// VerifPruneRunner returns the run-once function of a fresh instance of the
// production prune service registered under that name (same action builder,
// Initialize as the service runner does it), so that the harness runs a
// background job through the service's own transaction wrapper and - like the
// real service - on ONE action instance that is reused for every run.
// minAge must be > 0 (ApplyDefaults turns 0 into one hour).
func VerifPruneRunner(ctx context.Context, name string, client *ent.Client, minAge time.Duration, maxDelete int) (func(context.Context) (int, error), error) {
	for _, s := range defaultServices {
		ps, ok := s.(*pruneService)
		if !ok || ps.name != name {
			continue
		}
		n := pruneServiceFor(ps.name, ps.actionbuilder)
		n.settings.MinAge = minAge
		n.settings.MaxDelete = maxDelete
		if err := n.Initialize(ctx, client); err != nil {
			return nil, err
		}
		return n.runOnce, nil
	}
	return nil, fmt.Errorf("no prune service %q", name)
}
