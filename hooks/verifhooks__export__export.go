//go:build verif

// Package export exists only in the verification overlay: it re-exports what
// the harness needs from internal/ packages, which a module outside
// go.6river.tech/mmmbbb cannot import.
package export

import (
	"time"

	"go.6river.tech/mmmbbb/internal/sqltypes"
)

type Interval = sqltypes.Interval

func ParsePostgreSQLInterval(s string) (time.Duration, error) {
	return sqltypes.ParsePostgreSQLInterval(s)
}
