//go:build verif

package grpc

import "google.golang.org/grpc"

// VerifServer exposes the *grpc.Server built by Initialize (production
// interceptor chain included) so the harness can serve it on an in-memory
// listener.
func (s *grpcServer) VerifServer() *grpc.Server { return s.server }
