//go:build verif

// Package vclock exists only in the verification overlay. The instrumenter
// redirects time.Now / time.Since / time.Until in actions/ and services/ here.
// Until a virtual clock is installed it is a pass-through to package time.
package vclock

import (
	"sync"
	"time"
)

var (
	mu      sync.Mutex
	virtual bool
	cur     time.Time
)

// Install switches to virtual time starting at t. Every read advances the
// clock by 1 microsecond so that two reads never tie (like a real clock).
func Install(t time.Time) {
	mu.Lock()
	virtual, cur = true, t
	mu.Unlock()
}

// Uninstall returns to real time.
func Uninstall() {
	mu.Lock()
	virtual = false
	mu.Unlock()
}

// Advance moves the virtual clock forward.
func Advance(d time.Duration) {
	mu.Lock()
	if d > 0 {
		cur = cur.Add(d)
	}
	mu.Unlock()
}

// Peek returns the current virtual time without ticking.
func Peek() time.Time {
	mu.Lock()
	defer mu.Unlock()
	if !virtual {
		return time.Now()
	}
	return cur
}

func Virtual() bool {
	mu.Lock()
	defer mu.Unlock()
	return virtual
}

func Now() time.Time {
	mu.Lock()
	defer mu.Unlock()
	if !virtual {
		return time.Now()
	}
	cur = cur.Add(time.Microsecond)
	return cur.In(time.Local)
}

func Since(t time.Time) time.Duration { return Now().Sub(t) }
func Until(t time.Time) time.Duration { return t.Sub(Now()) }
