// Command instrument builds the go build -overlay description used by every
// check. It reads /repo's *current* working tree and writes, under the output
// directory, rewritten copies of the non-test Go files of actions/ and
// services/ in which the selectors time.Now / time.Since / time.Until are
// redirected to the overlay-only package verifhooks/vclock, and adds the
// tag-guarded hook files from /verif/hooks. Nothing in /repo is modified.
//
// The rewrite is byte-for-byte position preserving: the 4-byte identifier
// "time" is replaced by the 4-byte import alias "vclk", the import is added on
// the line of the package clause, and a blank use of package time is appended
// at the end of the file, so line numbers in panics and logs stay those of the
// original file.
package main

import (
	"encoding/json"
	"flag"
	"fmt"
	"go/ast"
	"go/parser"
	"go/token"
	"os"
	"path/filepath"
	"sort"
	"strings"
)

func die(f string, a ...any) {
	fmt.Fprintf(os.Stderr, "instrument: "+f+"\n", a...)
	os.Exit(2)
}

func main() {
	repo := flag.String("repo", "/repo", "repository root")
	hooks := flag.String("hooks", "/verif/hooks", "hook sources")
	out := flag.String("out", "/verif/build/overlay", "output directory")
	flag.Parse()

	replace := map[string]string{}
	nsites := 0
	for _, pkg := range []string{"actions", "services"} {
		dir := filepath.Join(*repo, pkg)
		ents, err := os.ReadDir(dir)
		if err != nil {
			die("%v", err)
		}
		for _, e := range ents {
			n := e.Name()
			if e.IsDir() || !strings.HasSuffix(n, ".go") || strings.HasSuffix(n, "_test.go") || strings.HasPrefix(n, "zz_verif") {
				continue
			}
			src := filepath.Join(dir, n)
			b, err := os.ReadFile(src)
			if err != nil {
				die("%v", err)
			}
			nb, k, err := rewrite(src, b)
			if err != nil {
				die("%s: %v", src, err)
			}
			if k == 0 {
				continue
			}
			nsites += k
			dst := filepath.Join(*out, pkg, n)
			if err := os.MkdirAll(filepath.Dir(dst), 0o755); err != nil {
				die("%v", err)
			}
			if err := os.WriteFile(dst, nb, 0o644); err != nil {
				die("%v", err)
			}
			replace[src] = dst
		}
	}

	// hook files: <hooks>/<path with __ for />.go  ->  <repo>/<path>.go
	hents, err := os.ReadDir(*hooks)
	if err != nil {
		die("%v", err)
	}
	for _, e := range hents {
		n := e.Name()
		if !strings.HasSuffix(n, ".go") {
			continue
		}
		rel := strings.ReplaceAll(n, "__", "/")
		replace[filepath.Join(*repo, rel)] = filepath.Join(*hooks, n)
	}

	keys := make([]string, 0, len(replace))
	for k := range replace {
		keys = append(keys, k)
	}
	sort.Strings(keys)
	ov := struct{ Replace map[string]string }{replace}
	jb, _ := json.MarshalIndent(ov, "", " ")
	if err := os.MkdirAll(*out, 0o755); err != nil {
		die("%v", err)
	}
	if err := os.WriteFile(filepath.Join(*out, "overlay.json"), jb, 0o644); err != nil {
		die("%v", err)
	}
	fmt.Printf("instrument: %d files, %d clock call sites rewritten\n", len(keys), nsites)
}

func rewrite(name string, src []byte) ([]byte, int, error) {
	fset := token.NewFileSet()
	f, err := parser.ParseFile(fset, name, src, parser.ParseComments)
	if err != nil {
		return nil, 0, err
	}
	// is "time" imported under its own name?
	imported := false
	for _, im := range f.Imports {
		if im.Path.Value == `"time"` && (im.Name == nil || im.Name.Name == "time") {
			imported = true
		}
	}
	if !imported {
		return src, 0, nil
	}
	var offs []int
	other := 0
	ast.Inspect(f, func(n ast.Node) bool {
		se, ok := n.(*ast.SelectorExpr)
		if !ok {
			return true
		}
		id, ok := se.X.(*ast.Ident)
		if !ok || id.Name != "time" || id.Obj != nil {
			return true
		}
		switch se.Sel.Name {
		case "Now", "Since", "Until":
			offs = append(offs, fset.Position(id.Pos()).Offset)
		default:
			other++
		}
		return true
	})
	if len(offs) == 0 {
		return src, 0, nil
	}
	out := append([]byte(nil), src...)
	for _, o := range offs {
		if string(out[o:o+4]) != "time" {
			return nil, 0, fmt.Errorf("offset mismatch at %d", o)
		}
		copy(out[o:o+4], "vclk")
	}
	// add the import on the package clause line
	pend := fset.Position(f.Name.End()).Offset
	ins := `; import vclk "go.6river.tech/mmmbbb/verifhooks/vclock"`
	out = append(out[:pend], append([]byte(ins), out[pend:]...)...)
	out = append(out, []byte("\nvar _ = time.Second\nvar _ = vclk.Now\n")...)
	_ = other
	return out, len(offs), nil
}
