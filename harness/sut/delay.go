package sut

import (
	"bytes"
	"encoding/json"
	"net/http"
	"net/http/httptest"
	"sync"
	"time"

	"github.com/gin-gonic/gin"

	"go.6river.tech/mmmbbb/controllers"
	"go.6river.tech/mmmbbb/db"
	"go.6river.tech/mmmbbb/middleware"
)

var ginOnce sync.Once

// SetDelay sets the injected delivery delay of a subscription through the
// real DelayInjectorController (gin handler, in process) and returns the HTTP
// status.
func (s *SUT) SetDelay(subName string, d time.Duration) int {
	ginOnce.Do(func() {
		gin.SetMode(gin.ReleaseMode)
		func() {
			defer func() { _ = recover() }() // "already set" panics are fine
			db.SetDefaultDbName("mmmbbb")
		}()
	})
	s.mu.Lock()
	r := s.delayRouter
	s.mu.Unlock()
	if r == nil {
		g := gin.New()
		g.Use(gin.Recovery())
		g.Use(middleware.WithEntClient(s.Client, middleware.Key()))
		cc := &controllers.DelayInjectorController{}
		if err := cc.Register(g); err != nil {
			return -1
		}
		s.mu.Lock()
		s.delayRouter = g
		s.mu.Unlock()
		r = g
	}
	body, _ := json.Marshal(map[string]string{"delay": d.String()})
	req := httptest.NewRequest(http.MethodPut, "/delays/"+subName, bytes.NewReader(body))
	req.Header.Set("content-type", "application/json")
	w := httptest.NewRecorder()
	r.ServeHTTP(w, req)
	return w.Code
}
