package sut

import (
	"context"
	"fmt"
	"strings"
)

// TableSnapshot holds the raw rows of the five tables.
type TableSnapshot struct {
	cols map[string][]string
	rows map[string][][]any
}

// restore order: parents first
var restoreOrder = []string{"topics", "subscriptions", "snapshots", "messages", "deliveries"}

// Snapshot reads all rows (un-gated connection).
func (s *SUT) Snapshot() (*TableSnapshot, error) {
	ts := &TableSnapshot{cols: map[string][]string{}, rows: map[string][][]any{}}
	for _, t := range tables {
		rows, err := s.Raw.Query("SELECT * FROM " + t)
		if err != nil {
			return nil, err
		}
		cols, _ := rows.Columns()
		ts.cols[t] = cols
		for rows.Next() {
			vals := make([]any, len(cols))
			ptrs := make([]any, len(cols))
			for i := range vals {
				ptrs[i] = &vals[i]
			}
			if err := rows.Scan(ptrs...); err != nil {
				rows.Close()
				return nil, err
			}
			ts.rows[t] = append(ts.rows[t], vals)
		}
		rows.Close()
	}
	return ts, nil
}

// Restore replaces the content of the five tables by the snapshot.
func (s *SUT) Restore(ts *TableSnapshot) error {
	ctx := context.Background()
	conn, err := s.Raw.Conn(ctx)
	if err != nil {
		return err
	}
	defer conn.Close()
	if _, err := conn.ExecContext(ctx, "BEGIN IMMEDIATE"); err != nil {
		return err
	}
	fail := func(err error) error {
		_, _ = conn.ExecContext(ctx, "ROLLBACK")
		return err
	}
	if _, err := conn.ExecContext(ctx, "PRAGMA defer_foreign_keys=ON"); err != nil {
		return fail(err)
	}
	for _, t := range tables {
		if _, err := conn.ExecContext(ctx, "DELETE FROM "+t); err != nil {
			return fail(fmt.Errorf("restore delete %s: %w", t, err))
		}
	}
	for _, t := range restoreOrder {
		cols := ts.cols[t]
		if len(ts.rows[t]) == 0 {
			continue
		}
		q := "INSERT INTO " + t + " (" + strings.Join(cols, ",") + ") VALUES (" + strings.TrimSuffix(strings.Repeat("?,", len(cols)), ",") + ")"
		for _, r := range ts.rows[t] {
			if _, err := conn.ExecContext(ctx, q, r...); err != nil {
				return fail(fmt.Errorf("restore insert %s: %w", t, err))
			}
		}
	}
	if _, err := conn.ExecContext(ctx, "COMMIT"); err != nil {
		return fail(err)
	}
	return nil
}
