// Package sut boots a system under test: the real mmmbbb gRPC servers
// (production interceptor chain) on top of a file-backed SQLite database opened
// through the gate driver, served over an in-memory listener.
package sut

import (
	"context"
	"database/sql"
	"encoding/binary"
	"fmt"
	"math/rand"
	"net"
	"net/http"
	"os"
	"path/filepath"
	"runtime/debug"
	"sort"
	"strings"
	"sync"
	"time"

	"cloud.google.com/go/pubsub/apiv1/pubsubpb"
	"entgo.io/ent/dialect"
	entsql "entgo.io/ent/dialect/sql"
	"github.com/google/uuid"
	"google.golang.org/grpc"
	"google.golang.org/grpc/codes"
	"google.golang.org/grpc/credentials/insecure"
	"google.golang.org/grpc/status"
	"google.golang.org/grpc/test/bufconn"

	"go.6river.tech/mmmbbb/actions"
	"go.6river.tech/mmmbbb/db"
	"go.6river.tech/mmmbbb/ent"
	_ "go.6river.tech/mmmbbb/ent/runtime"
	"go.6river.tech/mmmbbb/faults"
	mbgrpc "go.6river.tech/mmmbbb/grpc"
	"go.6river.tech/mmmbbb/services"
	"go.6river.tech/mmmbbb/verifhooks/vclock"
)

// Epoch is where virtual time starts in every case.
var Epoch = time.Date(2031, 3, 1, 12, 0, 0, 0, time.UTC)

type PanicRecord struct {
	Method string
	Value  string
	Stack  string
}

type SUT struct {
	Dir    string
	DBFile string
	Client *ent.Client
	Raw    *sql.DB // un-gated connection for dumps
	Faults *faults.Set
	Srv    *grpc.Server
	Conn   *grpc.ClientConn
	Pub    pubsubpb.PublisherClient
	Sub    pubsubpb.SubscriberClient

	mu          sync.Mutex
	panics      []PanicRecord
	lis         *bufconn.Listener
	delayRouter http.Handler
	streams     int
	jobs        map[string]func(context.Context) (int, error)
}

// JobRunner / SetJobRunner keep one production prune-service instance per
// (job, minAge, batch) for the lifetime of the SUT: the real service builds
// its action once and reuses it for every run, and so does the harness.
func (s *SUT) JobRunner(key string) (func(context.Context) (int, error), bool) {
	s.mu.Lock()
	defer s.mu.Unlock()
	r, ok := s.jobs[key]
	return r, ok
}

func (s *SUT) SetJobRunner(key string, r func(context.Context) (int, error)) {
	s.mu.Lock()
	defer s.mu.Unlock()
	if s.jobs == nil {
		s.jobs = map[string]func(context.Context) (int, error){}
	}
	s.jobs[key] = r
}

// WaitStreamsIdle waits until no streaming handler is running on the server
// (a cancelled StreamingPull winds down asynchronously).
func (s *SUT) WaitStreamsIdle(timeout time.Duration) bool {
	deadline := time.Now().Add(timeout)
	for {
		s.mu.Lock()
		n := s.streams
		s.mu.Unlock()
		if n == 0 {
			return true
		}
		if time.Now().After(deadline) {
			return false
		}
		time.Sleep(time.Millisecond)
	}
}

func scratchRoot() string {
	if st, err := os.Stat("/dev/shm"); err == nil && st.IsDir() {
		return "/dev/shm"
	}
	return os.TempDir()
}

// New boots a fresh SUT. Close removes its scratch directory.
func New() (*SUT, error) {
	dir, err := os.MkdirTemp(scratchRoot(), "verif-sut-")
	if err != nil {
		return nil, err
	}
	s := &SUT{Dir: dir, DBFile: filepath.Join(dir, "db")}
	dsn := db.SQLiteDSN(s.DBFile, true, false)
	conn, err := db.Open(GateDriverName, dialect.SQLite, dsn)
	if err != nil {
		return nil, err
	}
	s.Client = ent.NewClient(ent.Driver(entsql.OpenDB(dialect.SQLite, conn)))
	ctx := context.Background()
	if err := db.MigrateUpEnt(ctx, s.Client.Schema); err != nil {
		return nil, fmt.Errorf("migrate: %w", err)
	}
	raw, err := sql.Open("sqlite3", strings.Replace(dsn, "_txlock=immediate", "_txlock=deferred", 1))
	if err != nil {
		return nil, err
	}
	raw.SetMaxOpenConns(2)
	s.Raw = raw

	s.Faults = faults.NewSet("verif")
	svc := mbgrpc.NewGrpcService(0, 0,
		[]grpc.ServerOption{
			grpc.ChainUnaryInterceptor(s.guardUnary),
			grpc.ChainStreamInterceptor(s.guardStream),
		},
		s.Faults,
		func(_ context.Context, server *grpc.Server, client *ent.Client) error {
			return services.InitializeGrpcServers(server, client, nil)
		},
	)
	if err := svc.Initialize(ctx, s.Client); err != nil {
		return nil, err
	}
	s.Srv = svc.VerifServer()
	s.lis = bufconn.Listen(1 << 20)
	go func() { _ = s.Srv.Serve(s.lis) }()
	cc, err := grpc.NewClient("passthrough:///bufnet",
		grpc.WithContextDialer(func(ctx context.Context, _ string) (net.Conn, error) { return s.lis.DialContext(ctx) }),
		grpc.WithTransportCredentials(insecure.NewCredentials()),
		grpc.WithDefaultCallOptions(grpc.MaxCallRecvMsgSize(64<<20), grpc.MaxCallSendMsgSize(64<<20)),
	)
	if err != nil {
		return nil, err
	}
	s.Conn = cc
	s.Pub = pubsubpb.NewPublisherClient(cc)
	s.Sub = pubsubpb.NewSubscriberClient(cc)
	return s, nil
}

func (s *SUT) Close() {
	if s.Conn != nil {
		s.Conn.Close()
	}
	if s.Srv != nil {
		s.Srv.Stop()
	}
	if s.Client != nil {
		s.Client.Close()
	}
	if s.Raw != nil {
		s.Raw.Close()
	}
	os.RemoveAll(s.Dir)
}

// guardUnary is the innermost interceptor: it turns a handler panic into a
// recorded "the production server would have crashed here" event, and gives
// the gate driver a way to cancel the request in flight.
func (s *SUT) guardUnary(ctx context.Context, req any, info *grpc.UnaryServerInfo, handler grpc.UnaryHandler) (resp any, err error) {
	ctx, cancel := context.WithCancel(ctx)
	TheGate.SetCancel(cancel)
	defer func() {
		TheGate.SetCancel(nil)
		cancel()
		if r := recover(); r != nil {
			s.mu.Lock()
			s.panics = append(s.panics, PanicRecord{Method: info.FullMethod, Value: fmt.Sprint(r), Stack: string(debug.Stack())})
			s.mu.Unlock()
			resp, err = nil, status.Errorf(codes.Internal, "verif: handler panic: %v", r)
		}
	}()
	return handler(ctx, req)
}

func (s *SUT) guardStream(srv any, ss grpc.ServerStream, info *grpc.StreamServerInfo, handler grpc.StreamHandler) (err error) {
	s.mu.Lock()
	s.streams++
	s.mu.Unlock()
	defer func() {
		s.mu.Lock()
		s.streams--
		s.mu.Unlock()
	}()
	defer func() {
		if r := recover(); r != nil {
			s.mu.Lock()
			s.panics = append(s.panics, PanicRecord{Method: info.FullMethod, Value: fmt.Sprint(r), Stack: string(debug.Stack())})
			s.mu.Unlock()
			err = status.Errorf(codes.Internal, "verif: handler panic: %v", r)
		}
	}()
	return handler(srv, ss)
}

// TakePanics returns and clears the recorded handler panics.
func (s *SUT) TakePanics() []PanicRecord {
	s.mu.Lock()
	defer s.mu.Unlock()
	p := s.panics
	s.panics = nil
	return p
}

var tables = []string{"deliveries", "messages", "subscriptions", "snapshots", "topics"}

// Reset empties the tables, wakes and clears all in-process waiters, restarts
// the virtual clock at Epoch and re-seeds UUID generation.
func (s *SUT) Reset(seed int64, virtual bool) error {
	TheGate.Disarm()
	TheGate.SetScheduler(nil)
	for _, t := range tables {
		if _, err := s.Raw.Exec("DELETE FROM " + t); err != nil {
			return fmt.Errorf("reset %s: %w", t, err)
		}
	}
	actions.WakeAllInternal()
	if virtual {
		vclock.Install(Epoch)
	} else {
		vclock.Uninstall()
	}
	SeedUUIDs(seed)
	s.TakePanics()
	return nil
}

type seededReader struct {
	mu sync.Mutex
	r  *rand.Rand
}

func (s *seededReader) Read(p []byte) (int, error) {
	s.mu.Lock()
	defer s.mu.Unlock()
	for i := 0; i < len(p); i += 8 {
		var b [8]byte
		binary.LittleEndian.PutUint64(b[:], s.r.Uint64())
		copy(p[i:], b[:])
	}
	return len(p), nil
}

// SeedUUIDs makes uuid.New deterministic.
func SeedUUIDs(seed int64) {
	uuid.SetRand(&seededReader{r: rand.New(rand.NewSource(seed))})
}

// Now returns the current (virtual) time without ticking the clock.
func Now() time.Time { return vclock.Peek() }

// Advance moves virtual time forward.
func Advance(d time.Duration) { vclock.Advance(d) }

// Dump returns a canonical, order-independent text rendering of all five
// tables (raw column values). skipCols are omitted (e.g. created_at, which is
// filled from the real clock by ent defaults).
func (s *SUT) Dump(skipCols ...string) (string, error) {
	skip := map[string]bool{}
	for _, c := range skipCols {
		skip[c] = true
	}
	var sb strings.Builder
	for _, t := range tables {
		rows, err := s.Raw.Query("SELECT * FROM " + t)
		if err != nil {
			return "", err
		}
		cols, _ := rows.Columns()
		var lines []string
		for rows.Next() {
			vals := make([]any, len(cols))
			ptrs := make([]any, len(cols))
			for i := range vals {
				ptrs[i] = &vals[i]
			}
			if err := rows.Scan(ptrs...); err != nil {
				rows.Close()
				return "", err
			}
			var parts []string
			for i, c := range cols {
				if skip[t+"."+c] || skip[c] {
					continue
				}
				parts = append(parts, fmt.Sprintf("%s=%s", c, renderVal(vals[i])))
			}
			lines = append(lines, strings.Join(parts, " "))
		}
		rows.Close()
		sort.Strings(lines)
		fmt.Fprintf(&sb, "## %s (%d)\n", t, len(lines))
		for _, l := range lines {
			sb.WriteString(l)
			sb.WriteByte('\n')
		}
	}
	return sb.String(), nil
}

func renderVal(v any) string {
	switch x := v.(type) {
	case nil:
		return "NULL"
	case []byte:
		return fmt.Sprintf("%q", string(x))
	case time.Time:
		return x.UTC().Format(time.RFC3339Nano)
	case string:
		return fmt.Sprintf("%q", x)
	default:
		return fmt.Sprint(x)
	}
}

// Count returns the number of rows of a table.
func (s *SUT) Count(table string) int {
	var n int
	_ = s.Raw.QueryRow("SELECT count(*) FROM " + table).Scan(&n)
	return n
}

// SetVirtual (re)installs the virtual clock at t.
func SetVirtual(t time.Time) { vclock.Install(t) }
