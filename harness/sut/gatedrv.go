package sut

// Gate driver: a database/sql/driver wrapper around mattn's SQLite driver.
// Off by default (pure pass-through). When armed it numbers the "events"
// (BEGIN, every Exec/Query, COMMIT, ROLLBACK) issued through it and can
//   - fail event k with ErrInjected before it reaches SQLite (for COMMIT: roll
//     back underneath and return the error),
//   - cancel the current request context just before event k,
//   - return a synthetic PostgreSQL deadlock error once at event k (the only
//     way to execute the DoCtxTxRetry loop without PostgreSQL),
//   - park goroutines before BEGIN / after COMMIT until a scheduler releases
//     them (transaction-boundary schedule control).
// Original SQLite errors pass through unwrapped.

import (
	"context"
	"database/sql"
	"database/sql/driver"
	"errors"
	"strings"
	"sync"
	"time"

	"github.com/jackc/pgx/v5/pgconn"
	sqlite3 "github.com/mattn/go-sqlite3"
)

const GateDriverName = "sqlite3-verifgate"

var ErrInjected = errors.New("verif: injected storage failure")

type FaultMode int

const (
	FaultNone FaultMode = iota
	FaultError
	FaultCancel
	FaultDeadlockOnce
	// FaultCancelAfter cancels the request right AFTER the k-th event (a
	// statement) has completed and gives database/sql's watcher time to roll the
	// transaction back: what follows - the next statement or the COMMIT - meets
	// a transaction that is already gone
	FaultCancelAfter
)

type Event struct {
	N     int
	Kind  string // begin, exec, query, commit, rollback
	Query string
	Write bool
}

type Gate struct {
	mu           sync.Mutex
	armed        bool
	n            int
	events       []Event
	mode         FaultMode
	k            int
	fired        bool
	firedAt      Event
	cancel       func()
	pendingAfter bool

	// schedule control
	sched *Scheduler
}

var TheGate = &Gate{}

func init() {
	sql.Register(GateDriverName, &gateDriver{inner: &sqlite3.SQLiteDriver{}, g: TheGate})
}

// Arm starts numbering events; mode/k select a fault (k is 1-based).
func (g *Gate) Arm(mode FaultMode, k int) {
	g.mu.Lock()
	g.armed, g.n, g.events, g.mode, g.k, g.fired = true, 0, nil, mode, k, false
	g.mu.Unlock()
}

// Disarm stops numbering and returns the events seen and whether the fault fired.
func (g *Gate) Disarm() ([]Event, bool, Event) {
	g.mu.Lock()
	defer g.mu.Unlock()
	ev, f, fa := g.events, g.fired, g.firedAt
	g.armed, g.mode, g.events = false, FaultNone, nil
	return ev, f, fa
}

// SetCancel registers the function that cancels the request in flight.
func (g *Gate) SetCancel(c func()) {
	g.mu.Lock()
	g.cancel = c
	g.mu.Unlock()
}

func isWrite(q string) bool {
	q = strings.TrimSpace(strings.ToUpper(q))
	return strings.HasPrefix(q, "INSERT") || strings.HasPrefix(q, "UPDATE") || strings.HasPrefix(q, "DELETE")
}

// step registers an event; it returns a non-nil error if the event must fail
// without reaching SQLite.
func (g *Gate) step(kind, query string) error {
	g.mu.Lock()
	defer g.mu.Unlock()
	if !g.armed {
		return nil
	}
	g.n++
	ev := Event{N: g.n, Kind: kind, Query: query, Write: isWrite(query)}
	g.events = append(g.events, ev)
	if g.mode == FaultNone || g.fired || g.n != g.k {
		return nil
	}
	if g.mode == FaultCancelAfter {
		if kind != "exec" && kind != "query" {
			return nil
		}
		g.fired, g.firedAt, g.pendingAfter = true, ev, true
		return nil
	}
	g.fired, g.firedAt = true, ev
	switch g.mode {
	case FaultError:
		return ErrInjected
	case FaultDeadlockOnce:
		return &pgconn.PgError{Severity: "ERROR", Code: "40P01", Message: "verif: synthetic deadlock detected"}
	case FaultCancel:
		if g.cancel != nil {
			g.cancel()
		}
		return nil
	}
	return nil
}

// afterStmt runs when a statement has completed.
func (g *Gate) afterStmt() {
	g.mu.Lock()
	p, c := g.pendingAfter, g.cancel
	g.pendingAfter = false
	g.mu.Unlock()
	if p && c != nil {
		c()
		time.Sleep(5 * time.Millisecond)
	}
}

type gateDriver struct {
	inner *sqlite3.SQLiteDriver
	g     *Gate
}

func (d *gateDriver) Open(name string) (driver.Conn, error) {
	c, err := d.inner.Open(name)
	if err != nil {
		return nil, err
	}
	return &gateConn{SQLiteConn: c.(*sqlite3.SQLiteConn), g: d.g}, nil
}

type gateConn struct {
	*sqlite3.SQLiteConn
	g    *Gate
	inTx bool
}

// parkRows holds the reading goroutine of a registered actor after it has
// consumed and closed the result of a query made OUTSIDE a transaction (park
// point "postQuery"; only when the scheduler asks for it).
type parkRows struct {
	*sqlite3.SQLiteRows
	g     *Gate
	actor string
}

func (r *parkRows) Close() error {
	err := r.SQLiteRows.Close()
	r.g.park(r.actor, "postQuery")
	return err
}

func (c *gateConn) BeginTx(ctx context.Context, opts driver.TxOptions) (driver.Tx, error) {
	actor := actorOf(ctx)
	c.g.park(actor, "preBegin")
	if err := c.g.step("begin", "BEGIN"); err != nil {
		return nil, err
	}
	if err := ctx.Err(); err != nil {
		return nil, err
	}
	tx, err := c.SQLiteConn.BeginTx(ctx, opts)
	if err != nil {
		return nil, err
	}
	c.inTx = true
	return &gateTx{inner: tx, c: c, actor: actor}, nil
}

func (c *gateConn) Begin() (driver.Tx, error) {
	return c.BeginTx(context.Background(), driver.TxOptions{})
}

func (c *gateConn) ExecContext(ctx context.Context, query string, args []driver.NamedValue) (driver.Result, error) {
	if err := c.g.step("exec", query); err != nil {
		return nil, err
	}
	if err := ctx.Err(); err != nil {
		return nil, err
	}
	res, err := c.SQLiteConn.ExecContext(ctx, query, args)
	c.g.afterStmt()
	return res, err
}

func (c *gateConn) QueryContext(ctx context.Context, query string, args []driver.NamedValue) (driver.Rows, error) {
	if err := c.g.step("query", query); err != nil {
		return nil, err
	}
	if err := ctx.Err(); err != nil {
		return nil, err
	}
	rows, err := c.SQLiteConn.QueryContext(ctx, query, args)
	c.g.afterStmt()
	if err == nil && !c.inTx {
		if actor := actorOf(ctx); actor != "" && c.g.holds(actor, "postQuery") {
			if sr, ok := rows.(*sqlite3.SQLiteRows); ok {
				return &parkRows{SQLiteRows: sr, g: c.g, actor: actor}, nil
			}
		}
	}
	return rows, err
}

func (c *gateConn) PrepareContext(ctx context.Context, query string) (driver.Stmt, error) {
	st, err := c.SQLiteConn.PrepareContext(ctx, query)
	if err != nil {
		return nil, err
	}
	return &gateStmt{SQLiteStmt: st.(*sqlite3.SQLiteStmt), g: c.g, q: query}, nil
}

func (c *gateConn) Prepare(query string) (driver.Stmt, error) {
	return c.PrepareContext(context.Background(), query)
}

type gateStmt struct {
	*sqlite3.SQLiteStmt
	g *Gate
	q string
}

func (s *gateStmt) ExecContext(ctx context.Context, args []driver.NamedValue) (driver.Result, error) {
	if err := s.g.step("exec", s.q); err != nil {
		return nil, err
	}
	res, err := s.SQLiteStmt.ExecContext(ctx, args)
	s.g.afterStmt()
	return res, err
}

func (s *gateStmt) QueryContext(ctx context.Context, args []driver.NamedValue) (driver.Rows, error) {
	if err := s.g.step("query", s.q); err != nil {
		return nil, err
	}
	rows, err := s.SQLiteStmt.QueryContext(ctx, args)
	s.g.afterStmt()
	return rows, err
}

type gateTx struct {
	inner driver.Tx
	c     *gateConn
	actor string
}

func (t *gateTx) Commit() error {
	if err := t.c.g.step("commit", "COMMIT"); err != nil {
		_ = t.inner.Rollback()
		t.c.inTx = false
		return err
	}
	err := t.inner.Commit()
	t.c.inTx = false
	if err == nil {
		t.c.g.park(t.actor, "postCommit")
	}
	return err
}

func (t *gateTx) Rollback() error {
	// a rollback is never failed: it is the recovery path
	t.c.g.mu.Lock()
	if t.c.g.armed {
		t.c.g.n++
		t.c.g.events = append(t.c.g.events, Event{N: t.c.g.n, Kind: "rollback", Query: "ROLLBACK"})
	}
	t.c.g.mu.Unlock()
	t.c.inTx = false
	return t.inner.Rollback()
}
