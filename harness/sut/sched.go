package sut

// Transaction-boundary scheduler used by the schedule engines (C04 concurrent,
// C10, C11, C12 races). Calls carry an actor id (gRPC metadata "verif-actor" or
// a context value); a goroutine of a registered actor parks immediately before
// BEGIN and immediately after a successful COMMIT until released.

import (
	"context"
	"sync"
	"time"

	"google.golang.org/grpc/metadata"
)

type actorKey struct{}

// WithActor tags a context (direct action calls) with an actor id.
func WithActor(ctx context.Context, id string) context.Context {
	return context.WithValue(ctx, actorKey{}, id)
}

// ActorRPC tags an outgoing RPC context with an actor id.
func ActorRPC(ctx context.Context, id string) context.Context {
	return metadata.AppendToOutgoingContext(ctx, "verif-actor", id)
}

func actorOf(ctx context.Context) string {
	if v, ok := ctx.Value(actorKey{}).(string); ok {
		return v
	}
	if md, ok := metadata.FromIncomingContext(ctx); ok {
		if v := md.Get("verif-actor"); len(v) > 0 {
			return v[0]
		}
	}
	return ""
}

type parked struct {
	actor string
	where string
	seq   int
	rel   chan struct{}
}

// Scheduler holds goroutines of registered actors at transaction boundaries.
type Scheduler struct {
	mu      sync.Mutex
	actors  map[string]bool
	waiting []*parked
	seq     int
	arrived chan struct{}
	// HoldPostCommit: park also after commit (needed to run a whole writer
	// inside a waiter's check-to-wait window).
	HoldPostCommit bool
	// Only, when set, restricts holding to these park points ("preBegin",
	// "postCommit", "postQuery"); "postQuery" is held only when named here.
	Only  map[string]bool
	Trace []string
}

func NewScheduler(actors ...string) *Scheduler {
	s := &Scheduler{actors: map[string]bool{}, arrived: make(chan struct{}, 1024), HoldPostCommit: true}
	for _, a := range actors {
		s.actors[a] = true
	}
	return s
}

func (g *Gate) SetScheduler(s *Scheduler) {
	g.mu.Lock()
	g.sched = s
	g.mu.Unlock()
}

// holds reports whether a park point is currently held for an actor.
func (g *Gate) holds(actor, where string) bool {
	g.mu.Lock()
	s := g.sched
	g.mu.Unlock()
	if s == nil {
		return false
	}
	s.mu.Lock()
	defer s.mu.Unlock()
	return s.actors[actor] && s.Only != nil && s.Only[where]
}

func (g *Gate) park(actor, where string) {
	if actor == "" {
		return
	}
	g.mu.Lock()
	s := g.sched
	g.mu.Unlock()
	if s == nil {
		return
	}
	s.park(actor, where)
}

func (s *Scheduler) park(actor, where string) {
	s.mu.Lock()
	if !s.actors[actor] || (where == "postCommit" && !s.HoldPostCommit) || (s.Only != nil && !s.Only[where]) || (s.Only == nil && where == "postQuery") {
		s.mu.Unlock()
		return
	}
	s.seq++
	p := &parked{actor: actor, where: where, seq: s.seq, rel: make(chan struct{})}
	s.waiting = append(s.waiting, p)
	s.mu.Unlock()
	select {
	case s.arrived <- struct{}{}:
	default:
	}
	<-p.rel
}

// Parked lists the currently parked goroutines as "actor/where".
func (s *Scheduler) Parked() []string {
	s.mu.Lock()
	defer s.mu.Unlock()
	out := make([]string, len(s.waiting))
	for i, p := range s.waiting {
		out[i] = p.actor + "/" + p.where
	}
	return out
}

// Release lets the i-th parked goroutine continue.
func (s *Scheduler) Release(i int) string {
	s.mu.Lock()
	if i < 0 || i >= len(s.waiting) {
		s.mu.Unlock()
		return ""
	}
	p := s.waiting[i]
	s.waiting = append(s.waiting[:i], s.waiting[i+1:]...)
	name := p.actor + "/" + p.where
	s.Trace = append(s.Trace, name)
	s.mu.Unlock()
	close(p.rel)
	return name
}

// ReleaseActor releases the first parked goroutine of the given actor.
func (s *Scheduler) ReleaseActor(actor string) bool {
	s.mu.Lock()
	for i, p := range s.waiting {
		if p.actor == actor {
			s.mu.Unlock()
			return s.Release(i) != ""
		}
	}
	s.mu.Unlock()
	return false
}

// Unregister stops holding an actor and releases everything it has parked.
func (s *Scheduler) Unregister(actor string) {
	s.mu.Lock()
	delete(s.actors, actor)
	var keep []*parked
	for _, p := range s.waiting {
		if p.actor == actor {
			close(p.rel)
		} else {
			keep = append(keep, p)
		}
	}
	s.waiting = keep
	s.mu.Unlock()
}

// ReleaseAll stops holding anything.
func (s *Scheduler) ReleaseAll() {
	s.mu.Lock()
	s.actors = map[string]bool{}
	for _, p := range s.waiting {
		close(p.rel)
	}
	s.waiting = nil
	s.mu.Unlock()
}

// WaitParked waits until at least n goroutines are parked or the timeout
// passes; it returns the number parked.
func (s *Scheduler) WaitParked(n int, timeout time.Duration) int {
	deadline := time.After(timeout)
	for {
		s.mu.Lock()
		k := len(s.waiting)
		s.mu.Unlock()
		if k >= n {
			return k
		}
		select {
		case <-s.arrived:
		case <-time.After(2 * time.Millisecond):
		case <-deadline:
			s.mu.Lock()
			k := len(s.waiting)
			s.mu.Unlock()
			return k
		}
	}
}
