// Package filt is an independent reference for the Pub/Sub subscription filter
// language: AST, evaluator (documented semantics), token-level recogniser of
// the grammar, renderer with spelling freedom, and a conservative lexer for
// fuzzed text. Nothing here uses participle or the code under test.
package filt

import (
	"fmt"
	"strconv"
	"strings"
	"unicode"
	"unicode/utf8"
)

// ---------------------------------------------------------------- AST

type Kind int

const (
	Has Kind = iota
	Eq
	Ne
	Prefix
)

type Basic struct {
	Kind  Kind
	Name  string
	Value string
}

type Term struct {
	Not   bool
	Basic *Basic
	Sub   *Cond
}

type Cond struct {
	First *Term
	Op    string // "", "AND", "OR"
	Rest  []*Term
}

func (b *Basic) Eval(a map[string]string) bool {
	v, ok := a[b.Name]
	if !ok {
		return false
	}
	switch b.Kind {
	case Has:
		return true
	case Eq:
		return v == b.Value
	case Ne:
		return v != b.Value
	case Prefix:
		return strings.HasPrefix(v, b.Value)
	}
	panic("bad kind")
}

func (t *Term) Eval(a map[string]string) bool {
	var r bool
	if t.Basic != nil {
		r = t.Basic.Eval(a)
	} else {
		r = t.Sub.Eval(a)
	}
	if t.Not {
		return !r
	}
	return r
}

func (c *Cond) Eval(a map[string]string) bool {
	r := c.First.Eval(a)
	switch c.Op {
	case "AND":
		for _, t := range c.Rest {
			r = r && t.Eval(a)
		}
	case "OR":
		for _, t := range c.Rest {
			r = r || t.Eval(a)
		}
	}
	return r
}

// Leaves / operators / depth, for non-triviality rules.
func (c *Cond) Leaves() []*Basic {
	var out []*Basic
	var walkT func(t *Term)
	var walkC func(c *Cond)
	walkT = func(t *Term) {
		if t.Basic != nil {
			out = append(out, t.Basic)
		} else {
			walkC(t.Sub)
		}
	}
	walkC = func(c *Cond) {
		walkT(c.First)
		for _, t := range c.Rest {
			walkT(t)
		}
	}
	walkC(c)
	return out
}

func (c *Cond) Operators() int {
	n := 0
	var walkT func(t *Term)
	var walkC func(c *Cond)
	walkT = func(t *Term) {
		if t.Not {
			n++
		}
		if t.Sub != nil {
			walkC(t.Sub)
		}
	}
	walkC = func(c *Cond) {
		n += len(c.Rest)
		walkT(c.First)
		for _, t := range c.Rest {
			walkT(t)
		}
	}
	walkC(c)
	return n
}

// Canon renders a canonical text form (for hashing / display).
func (c *Cond) Canon() string {
	var sb strings.Builder
	var wt func(t *Term)
	var wc func(c *Cond)
	wt = func(t *Term) {
		if t.Not {
			sb.WriteString("NOT ")
		}
		if t.Basic != nil {
			b := t.Basic
			switch b.Kind {
			case Has:
				fmt.Fprintf(&sb, "attributes:%s", strconv.Quote(b.Name))
			case Eq:
				fmt.Fprintf(&sb, "attributes.%s=%s", strconv.Quote(b.Name), strconv.Quote(b.Value))
			case Ne:
				fmt.Fprintf(&sb, "attributes.%s!=%s", strconv.Quote(b.Name), strconv.Quote(b.Value))
			case Prefix:
				fmt.Fprintf(&sb, "hasPrefix(attributes.%s,%s)", strconv.Quote(b.Name), strconv.Quote(b.Value))
			}
		} else {
			sb.WriteByte('(')
			wc(t.Sub)
			sb.WriteByte(')')
		}
	}
	wc = func(c *Cond) {
		wt(c.First)
		for _, t := range c.Rest {
			sb.WriteString(" " + c.Op + " ")
			wt(t)
		}
	}
	wc(c)
	return sb.String()
}

// ---------------------------------------------------------------- tokens

type TokKind int

const (
	TIdent  TokKind = iota // includes keywords (Text decides)
	TString                // Text is the *decoded* value, Raw the spelling
	TPunct                 // one of : . = ! ( ) , -
	// TIllegal is text that cannot be part of any sentence of the documented
	// grammar outside a string: a character no token starts with (/ * + ; # ...),
	// which includes Go-style comments. A sequence holding one is OUT.
	TIllegal
)

// Ill makes an illegal lexeme (rendered verbatim).
func Ill(s string) Tok { return Tok{Kind: TIllegal, Text: s} }

// illegalStart: characters that start no token of the documented grammar.
// (Digits, quotes other than ", backticks, control characters and invalid
// UTF-8 stay "unspecified": the documentation is silent or ambiguous there.)
const illegalStart = "/*+;#<>[]{}&|~@$%^?\\"

type Tok struct {
	Kind TokKind
	Text string // ident text / decoded string value / punctuation char
	Raw  string // exact spelling for strings (with quotes); "" = default quoting
}

func (t Tok) String() string {
	switch t.Kind {
	case TString:
		if t.Raw != "" {
			return t.Raw
		}
		return strconv.Quote(t.Text)
	default:
		return t.Text
	}
}

func Id(s string) Tok  { return Tok{Kind: TIdent, Text: s} }
func Str(s string) Tok { return Tok{Kind: TString, Text: s} }
func P(s string) Tok   { return Tok{Kind: TPunct, Text: s} }

var Keywords = map[string]bool{"attributes": true, "AND": true, "OR": true, "NOT": true, "hasPrefix": true}

// IsIdent reports whether s lexes as a single identifier token.
func IsIdent(s string) bool {
	if s == "" {
		return false
	}
	for i, ch := range s {
		if ch == utf8.RuneError {
			return false
		}
		if !(ch == '_' || unicode.IsLetter(ch) || unicode.IsDigit(ch) && i > 0) {
			return false
		}
	}
	return true
}

// Join renders tokens to text. seps[i] is the whitespace placed before token i
// (seps may be shorter; missing entries mean ""). A single space is forced
// between two adjacent identifier tokens, which would otherwise merge.
func Join(toks []Tok, seps []string) string {
	var sb strings.Builder
	for i, t := range toks {
		sep := ""
		if i < len(seps) {
			sep = seps[i]
		}
		if i > 0 && sep == "" && toks[i-1].Kind == TIdent && t.Kind == TIdent {
			sep = " "
		}
		sb.WriteString(sep)
		sb.WriteString(t.String())
	}
	if len(seps) > len(toks) {
		sb.WriteString(seps[len(toks)])
	}
	return sb.String()
}

// ---------------------------------------------------------------- AST -> tokens

// Spelling holds the free choices of the concrete syntax.
type Spelling struct {
	// Dash(i) says whether the i-th NOT is spelled "-".
	Dash func() bool
	// QuoteName says whether an identifier-like name is spelled as a string.
	QuoteName func() bool
	// Parens returns how many redundant parentheses to wrap a term in (0..).
	Parens func() int
	// StringRaw may return an alternative spelling of a string value ("" = default).
	StringRaw func(v string) string
}

func nameTok(n string, sp *Spelling) Tok {
	if IsIdent(n) && !Keywords[n] && !(sp != nil && sp.QuoteName != nil && sp.QuoteName()) {
		return Id(n)
	}
	return strTok(n, sp)
}

func strTok(v string, sp *Spelling) Tok {
	t := Str(v)
	if sp != nil && sp.StringRaw != nil {
		t.Raw = sp.StringRaw(v)
	}
	return t
}

// Tokens renders the condition as a token sequence.
func (c *Cond) Tokens(sp *Spelling) []Tok {
	var out []Tok
	var wt func(t *Term)
	var wc func(c *Cond)
	wt = func(t *Term) {
		if t.Not {
			if sp != nil && sp.Dash != nil && sp.Dash() {
				out = append(out, P("-"))
			} else {
				out = append(out, Id("NOT"))
			}
		}
		if t.Basic != nil {
			b := t.Basic
			switch b.Kind {
			case Has:
				out = append(out, Id("attributes"), P(":"), nameTok(b.Name, sp))
			case Eq:
				out = append(out, Id("attributes"), P("."), nameTok(b.Name, sp), P("="), strTok(b.Value, sp))
			case Ne:
				out = append(out, Id("attributes"), P("."), nameTok(b.Name, sp), P("!"), P("="), strTok(b.Value, sp))
			case Prefix:
				out = append(out, Id("hasPrefix"), P("("), Id("attributes"), P("."), nameTok(b.Name, sp), P(","), strTok(b.Value, sp), P(")"))
			}
		} else {
			out = append(out, P("("))
			wc(t.Sub)
			out = append(out, P(")"))
		}
	}
	wc = func(c *Cond) {
		wt(c.First)
		for _, t := range c.Rest {
			out = append(out, Id(c.Op))
			wt(t)
		}
	}
	wc(c)
	return out
}

// ---------------------------------------------------------------- recogniser

type Verdict int

const (
	OUT Verdict = iota
	IN
	UNSPEC
)

func (v Verdict) String() string { return [...]string{"OUT", "IN", "UNSPECIFIED"}[v] }

// Recognise decides whether the token sequence is a sentence of the grammar
//
//	Condition = Term ( ("AND" Term)+ | ("OR" Term)+ )?
//	Term      = ("NOT"|"-")? ( Basic | "(" Condition ")" )
//	Basic     = "attributes" ":" Name
//	          | "attributes" "." Name ("=" | "!" "=") String
//	          | "hasPrefix" "(" "attributes" "." Name "," String ")"
//	Name      = Ident | String
//
// A bare keyword used as a Name is UNSPECIFIED (the grammar file admits it,
// the public documentation is silent).
func Recognise(toks []Tok) (Verdict, *Cond) {
	for _, t := range toks {
		if t.Kind == TIllegal {
			return OUT, nil
		}
	}
	p := &rp{toks: toks}
	c, ok := p.cond()
	if !ok || p.pos != len(toks) {
		// Distinguish a definite OUT from "would be IN only through a keyword
		// name": re-run allowing nothing special - OUT stays OUT. If the
		// sequence uses a keyword directly after ':' or '.', the verdict is
		// unspecified either way.
		if usesKeywordName(toks) {
			return UNSPEC, nil
		}
		return OUT, nil
	}
	if usesKeywordName(toks) {
		return UNSPEC, c
	}
	return IN, c
}

func usesKeywordName(toks []Tok) bool {
	for i := 1; i < len(toks); i++ {
		if toks[i].Kind == TIdent && Keywords[toks[i].Text] && toks[i-1].Kind == TPunct && (toks[i-1].Text == ":" || toks[i-1].Text == ".") {
			return true
		}
	}
	return false
}

type rp struct {
	toks []Tok
	pos  int
}

func (p *rp) peek() *Tok {
	if p.pos < len(p.toks) {
		return &p.toks[p.pos]
	}
	return nil
}

func (p *rp) isIdent(s string) bool {
	t := p.peek()
	return t != nil && t.Kind == TIdent && t.Text == s
}

func (p *rp) isPunct(s string) bool {
	t := p.peek()
	return t != nil && t.Kind == TPunct && t.Text == s
}

func (p *rp) cond() (*Cond, bool) {
	first, ok := p.term()
	if !ok {
		return nil, false
	}
	c := &Cond{First: first}
	for _, op := range []string{"AND", "OR"} {
		if p.isIdent(op) {
			c.Op = op
			for p.isIdent(op) {
				save := p.pos
				p.pos++
				t, ok := p.term()
				if !ok {
					p.pos = save
					return nil, false
				}
				c.Rest = append(c.Rest, t)
			}
			break
		}
	}
	return c, true
}

func (p *rp) term() (*Term, bool) {
	t := &Term{}
	if p.isIdent("NOT") || p.isPunct("-") {
		t.Not = true
		p.pos++
	}
	if p.isPunct("(") {
		p.pos++
		c, ok := p.cond()
		if !ok || !p.isPunct(")") {
			return nil, false
		}
		p.pos++
		t.Sub = c
		return t, true
	}
	b, ok := p.basic()
	if !ok {
		return nil, false
	}
	t.Basic = b
	return t, true
}

func (p *rp) name() (string, bool) {
	t := p.peek()
	if t == nil || (t.Kind != TIdent && t.Kind != TString) {
		return "", false
	}
	p.pos++
	return t.Text, true
}

func (p *rp) str() (string, bool) {
	t := p.peek()
	if t == nil || t.Kind != TString {
		return "", false
	}
	p.pos++
	return t.Text, true
}

func (p *rp) basic() (*Basic, bool) {
	if p.isIdent("attributes") {
		p.pos++
		if p.isPunct(":") {
			p.pos++
			n, ok := p.name()
			if !ok {
				return nil, false
			}
			return &Basic{Kind: Has, Name: n}, true
		}
		if !p.isPunct(".") {
			return nil, false
		}
		p.pos++
		n, ok := p.name()
		if !ok {
			return nil, false
		}
		k := Eq
		if p.isPunct("!") {
			p.pos++
			k = Ne
		}
		if !p.isPunct("=") {
			return nil, false
		}
		p.pos++
		v, ok := p.str()
		if !ok {
			return nil, false
		}
		return &Basic{Kind: k, Name: n, Value: v}, true
	}
	if p.isIdent("hasPrefix") {
		p.pos++
		if !p.isPunct("(") {
			return nil, false
		}
		p.pos++
		if !p.isIdent("attributes") {
			return nil, false
		}
		p.pos++
		if !p.isPunct(".") {
			return nil, false
		}
		p.pos++
		n, ok := p.name()
		if !ok {
			return nil, false
		}
		if !p.isPunct(",") {
			return nil, false
		}
		p.pos++
		v, ok := p.str()
		if !ok {
			return nil, false
		}
		if !p.isPunct(")") {
			return nil, false
		}
		p.pos++
		return &Basic{Kind: Prefix, Name: n, Value: v}, true
	}
	return nil, false
}

// ---------------------------------------------------------------- lexer for fuzzed text

// Lex tokenises text in the documented lexical subset: identifiers, double
// quoted strings with the escapes \" \\ \n \t \r \uXXXX \xXX, the punctuation
// : . = ! ( ) , - and ASCII whitespace. ok=false means the text uses something
// outside that subset (raw strings, numbers, other escapes, control
// characters, invalid UTF-8 ...) and no verdict is claimed for it. A character
// that starts no documented token (which covers comments) ends the scan with a
// TIllegal token: such a text is definitely not a sentence.
func Lex(s string) (toks []Tok, ok bool) {
	if !utf8.ValidString(s) {
		return nil, false
	}
	i := 0
	for i < len(s) {
		ch, w := utf8.DecodeRuneInString(s[i:])
		switch {
		case ch == ' ' || ch == '\t' || ch == '\n' || ch == '\r':
			i += w
		case strings.ContainsRune(":=!(),-", ch):
			toks = append(toks, P(string(ch)))
			i += w
		case ch == '.':
			// ".5" lexes as a float in Go-like scanners
			if i+1 < len(s) && s[i+1] >= '0' && s[i+1] <= '9' {
				return nil, false
			}
			toks = append(toks, P("."))
			i += w
		case ch == '_' || unicode.IsLetter(ch):
			j := i + w
			for j < len(s) {
				c2, w2 := utf8.DecodeRuneInString(s[j:])
				if c2 == '_' || unicode.IsLetter(c2) || unicode.IsDigit(c2) {
					j += w2
				} else {
					break
				}
			}
			toks = append(toks, Id(s[i:j]))
			i = j
		case ch == '"':
			j := i + 1
			for {
				if j >= len(s) {
					return nil, false
				}
				c := s[j]
				if c == '"' {
					break
				}
				if c == '\n' || c < 0x20 || c == 0x7f {
					return nil, false
				}
				if c == '\\' {
					if j+1 >= len(s) {
						return nil, false
					}
					switch s[j+1] {
					case '"', '\\', 'n', 't', 'r':
						j += 2
					case 'u':
						if j+6 > len(s) || !isHex(s[j+2:j+6]) {
							return nil, false
						}
						v, _ := strconv.ParseUint(s[j+2:j+6], 16, 32)
						if v >= 0xD800 && v <= 0xDFFF {
							return nil, false
						}
						j += 6
					case 'x':
						if j+4 > len(s) || !isHex(s[j+2:j+4]) {
							return nil, false
						}
						j += 4
					default:
						return nil, false
					}
					continue
				}
				j++
			}
			raw := s[i : j+1]
			v, err := strconv.Unquote(raw)
			if err != nil {
				return nil, false
			}
			toks = append(toks, Tok{Kind: TString, Text: v, Raw: raw})
			i = j + 1
		case strings.ContainsRune(illegalStart, ch):
			// everything before this point is in the documented subset, so this
			// character is outside any string: the text is not a sentence,
			// whatever follows
			return append(toks, Ill(s[i:])), true
		default:
			return nil, false
		}
	}
	return toks, true
}

func isHex(s string) bool {
	for i := 0; i < len(s); i++ {
		c := s[i]
		if !(c >= '0' && c <= '9' || c >= 'a' && c <= 'f' || c >= 'A' && c <= 'F') {
			return false
		}
	}
	return len(s) > 0
}
