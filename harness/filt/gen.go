package filt

import (
	"fmt"
	"strconv"
	"strings"

	"pgregory.net/rapid"
)

// Names and Values are the vocabulary of the bounded part: identifiers, names
// that need quoting, the empty string, keyword-like names, unicode, strings
// that are prefixes of one another, and strings with characters that need
// escaping.
var Names = []string{"x", "y", "a b", "", "AND", "attributes", "é", "x1", "1x", "_z", "NOT", "hasPrefix", "x.y", `q"`, "!", "=", "-", "(", ",", "OR"}
var Values = []string{"", "x", "xy", "xyz", "y", "yx", "é", `"`, `\`, "a b", "X", "\n", "<&>", "=", "!", ")", ",", "AND"}

func genName() *rapid.Generator[string] {
	return rapid.OneOf(rapid.SampledFrom(Names), rapid.SampledFrom(Names), rapid.StringMatching(`[a-zé_][a-z0-9_]{0,3}`), rapid.StringN(0, 4, 8))
}

func genValue() *rapid.Generator[string] {
	return rapid.OneOf(rapid.SampledFrom(Values), rapid.SampledFrom(Values), rapid.StringN(0, 4, 8))
}

func GenBasic(t *rapid.T) *Basic {
	b := &Basic{Kind: Kind(rapid.IntRange(0, 3).Draw(t, "kind")), Name: genName().Draw(t, "name")}
	if b.Kind != Has {
		b.Value = genValue().Draw(t, "value")
	}
	return b
}

func genTerm(t *rapid.T, depth int, budget *int) *Term {
	tm := &Term{Not: rapid.IntRange(0, 3).Draw(t, "not") == 0}
	if depth > 0 && *budget > 1 && rapid.IntRange(0, 2).Draw(t, "sub") == 0 {
		tm.Sub = genCond(t, depth-1, budget)
	} else {
		*budget--
		tm.Basic = GenBasic(t)
	}
	return tm
}

func genCond(t *rapid.T, depth int, budget *int) *Cond {
	c := &Cond{First: genTerm(t, depth, budget)}
	if *budget > 0 {
		switch rapid.IntRange(0, 3).Draw(t, "op") {
		case 0:
		case 1, 3:
			c.Op = "AND"
		case 2:
			c.Op = "OR"
		}
		if c.Op != "" {
			n := rapid.IntRange(1, 3).Draw(t, "nrest")
			for i := 0; i < n && (*budget > 0 || i == 0); i++ {
				c.Rest = append(c.Rest, genTerm(t, depth, budget))
			}
		}
	}
	return c
}

// GenCond draws a condition of at most maxLeaves leaves and the given depth.
func GenCond(t *rapid.T, depth, maxLeaves int) *Cond {
	b := maxLeaves
	return genCond(t, depth, &b)
}

// GenAttrs draws an attribute map biased towards the names and values used
// by the condition.
func GenAttrs(t *rapid.T, c *Cond) map[string]string {
	names := append([]string{}, Names...)
	vals := append([]string{}, Values...)
	if c != nil {
		for _, l := range c.Leaves() {
			names = append(names, l.Name, l.Name)
			vals = append(vals, l.Value, l.Value, l.Value+"z", "z"+l.Value)
			if len(l.Value) > 0 {
				vals = append(vals, l.Value[:len(l.Value)-1])
			}
		}
	}
	n := rapid.IntRange(0, 5).Draw(t, "nattrs")
	m := map[string]string{}
	for i := 0; i < n; i++ {
		m[rapid.SampledFrom(names).Draw(t, "an")] = rapid.SampledFrom(vals).Draw(t, "av")
	}
	return m
}

// GenSpelling draws the free choices of the concrete syntax.
func GenSpelling(t *rapid.T) *Spelling {
	return &Spelling{
		Dash:      func() bool { return rapid.Bool().Draw(t, "dash") },
		QuoteName: func() bool { return rapid.IntRange(0, 3).Draw(t, "qn") == 0 },
		StringRaw: func(v string) string {
			if rapid.IntRange(0, 3).Draw(t, "raw") != 0 {
				return ""
			}
			return AltQuote(v, func() int { return rapid.IntRange(0, 3).Draw(t, "esc") })
		},
	}
}

// AltQuote spells a string literal with a random mix of escape forms, all in
// the documented lexical subset. The result always unquotes to v.
func AltQuote(v string, choice func() int) string {
	var sb strings.Builder
	sb.WriteByte('"')
	for _, r := range v {
		switch {
		case r == '"':
			sb.WriteString(`\"`)
		case r == '\\':
			sb.WriteString(`\\`)
		case r == '\n':
			sb.WriteString(`\n`)
		case r == '\t':
			sb.WriteString(`\t`)
		case r == '\r':
			sb.WriteString(`\r`)
		case r < 0x20 || r == 0x7f || r == 0xFFFD:
			if r < 0x80 {
				fmt.Fprintf(&sb, `\x%02x`, r)
			} else {
				fmt.Fprintf(&sb, `\u%04x`, r)
			}
		case r > 0xFFFF:
			sb.WriteRune(r)
		default:
			switch choice() {
			case 0:
				fmt.Fprintf(&sb, `\u%04x`, r)
			case 1:
				if r < 0x80 {
					fmt.Fprintf(&sb, `\x%02x`, r)
				} else {
					sb.WriteRune(r)
				}
			default:
				sb.WriteRune(r)
			}
		}
	}
	sb.WriteByte('"')
	s := sb.String()
	if u, err := strconv.Unquote(s); err != nil || u != v {
		return ""
	}
	return s
}

var seps = []string{"", "", "", " ", " ", "  ", "\t", "\n", " \r\n "}

// GenSeps draws whitespace for n tokens (+1 trailing).
func GenSeps(t *rapid.T, n int) []string {
	if rapid.IntRange(0, 2).Draw(t, "plainws") == 0 {
		return nil
	}
	out := make([]string, n+1)
	for i := range out {
		out[i] = rapid.SampledFrom(seps).Draw(t, "ws")
	}
	return out
}

// WrapParens adds redundant parentheses around random terms (changes the AST
// shape but not the meaning) - used by the metamorphic laws.
func WrapParens(t *Term) *Term {
	return &Term{Sub: &Cond{First: t}}
}

var mutPool = []Tok{
	Id("attributes"), Id("AND"), Id("OR"), Id("NOT"), Id("hasPrefix"), Id("x"), Id("foo"),
	Str("x"), Str(""), P(":"), P("."), P("="), P("!"), P("("), P(")"), P(","), P("-"),
	// lexemes outside the documented language (Go-style comments are what a
	// Go scanner based lexer would swallow silently)
	Ill("/* c */"), Ill("// c\n"), Ill("/*\"*/"), Ill("/**/"), Ill(";"), Ill("+"),
	// a quoted string is a string whatever it spells: it is neither an operator
	// nor a keyword
	Str("AND"), Str("OR"), Str("NOT"), Str("-"), Str("!"), Str("="), Str("("), Str(")"), Str(","), Str(":"), Str("."), Str("attributes"), Str("hasPrefix"),
}

// Mutate applies one token-level mutation and describes it.
func Mutate(t *rapid.T, toks []Tok) ([]Tok, string) {
	out := append([]Tok(nil), toks...)
	if len(out) == 0 {
		return append(out, rapid.SampledFrom(mutPool).Draw(t, "ins")), "insert"
	}
	i := rapid.IntRange(0, len(out)-1).Draw(t, "mi")
	switch rapid.IntRange(0, 4).Draw(t, "mk") {
	case 0:
		return append(out[:i], out[i+1:]...), fmt.Sprintf("delete@%d", i)
	case 1:
		out = append(out[:i+1], out[i:]...)
		return out, fmt.Sprintf("dup@%d", i)
	case 2:
		if i+1 < len(out) {
			out[i], out[i+1] = out[i+1], out[i]
		}
		return out, fmt.Sprintf("swap@%d", i)
	case 3:
		out[i] = rapid.SampledFrom(mutPool).Draw(t, "rep")
		return out, fmt.Sprintf("replace@%d", i)
	default:
		ins := rapid.SampledFrom(mutPool).Draw(t, "ins")
		out = append(out[:i], append([]Tok{ins}, out[i:]...)...)
		return out, fmt.Sprintf("insert@%d", i)
	}
}

// TokClasses counts the distinct token classes in a sequence.
func TokClasses(toks []Tok) int {
	m := map[string]bool{}
	for _, t := range toks {
		switch t.Kind {
		case TIdent:
			if Keywords[t.Text] {
				m["kw:"+t.Text] = true
			} else {
				m["ident"] = true
			}
		case TString:
			m["string"] = true
		default:
			m["p"+t.Text] = true
		}
	}
	return len(m)
}
