package hist

import (
	"bytes"
	"encoding/json"
	"fmt"
	"math"
	"reflect"
	"sort"
	"strings"
	"time"

	"cloud.google.com/go/pubsub/apiv1/pubsubpb"
	"google.golang.org/grpc/codes"

	"verif/filt"
)

// ---------------------------------------------------------------- state

type State int

const (
	Out   State = iota // outstanding
	Acked              // acknowledged (or seeked past)
	DLd                // dead-lettered (retired from this subscription, forwarded)
	Limbo              // outstanding or acknowledged: the implementation was free to choose
)

func (s State) String() string {
	return [...]string{"outstanding", "acked", "deadlettered", "limbo"}[s]
}

type Topic struct {
	Gen  int
	Name string
	Live bool
}

type Sub struct {
	Gen     int
	Name    string
	Live    bool
	Topic   *Topic
	Cfg     SubCfg
	DL      *Topic   // dead-letter topic generation the policy points to
	EverDL  []*Topic // every dead-letter topic it has pointed to (a forward may predate an update)
	Filter  *filt.Cond
	Expires time.Time // last activity + TTL in force at that activity
	Delay   time.Duration
	Dels    []*Del
}

type Msg struct {
	Idx   int
	ID    string
	Topic *Topic
	Spec  MsgSpec
	Pub   time.Time
}

type Del struct {
	Seq       int
	Sub       *Sub
	Msg       *Msg
	Origin    *Del
	PubLo     time.Time // earliest time the stored publish time can be (start of the publish request); zero = Pub
	State     State
	N         int // deliveries so far
	Lo, Hi    time.Time
	Exp       time.Time
	Pub       time.Time // delivery publish time (approximate: op start)
	PubExact  time.Time // exact, once observed through a pull (direct publishes only)
	AckID     string
	Probe     time.Time // a time worth pulling at: just after a positive modack that is shorter than the lease
	Completed time.Time
	Seek      bool // a seek changed this delivery's state
	PrunedMay bool // the completed row may have been removed by a prune job
	Fuzzy     bool // lease / expiry no longer known precisely
	// ExpUnknown: delivered after the retention end the model knew of (a seek
	// the model could not follow gave it a fresh retention)
	ExpUnknown bool
}

type Snap struct {
	Name  string
	Topic *Topic
	SubG  int
	T     time.Time
	U     map[int]bool // message idx outstanding on the source at T
	Fuzz  map[int]bool // message idx whose state on the source was not known
	Had   map[int]bool // every message the subscription held a delivery of when the snapshot was taken
}

// Viol is an oracle violation.
type Viol struct {
	Prop   string   // primary property the rule belongs to
	Also   []string // further properties whose statement the same observation contradicts
	Rule   string
	Detail string
	Sig    map[string]any
}

func (v Viol) String() string { return fmt.Sprintf("[%s/%s] %s", v.Prop, v.Rule, v.Detail) }

// Peeker resolves implementation freedom by looking at a delivery row
// ("deliveries table after each step" is an allowed observation point).
type Peeker interface {
	DeliveryCompleted(ackID string) (completed, exists bool)
}

type Model struct {
	// Session: the response being applied comes from a streaming-pull session
	// (what was sent before the client hung up): only the must-not rules apply
	Session bool
	Topics  map[string]*Topic
	Subs    map[string]*Sub
	Snaps   map[string]*Snap
	AllSubs []*Sub
	Msgs    []*Msg
	Rcv     []*Del // deliveries in order of receipt: handles index this
	gen     int
	seq     int
	Peek    Peeker
	// counters for evidence
	C map[string]int
}

func NewModel() *Model {
	return &Model{Topics: map[string]*Topic{}, Subs: map[string]*Sub{}, Snaps: map[string]*Snap{}, C: map[string]int{}}
}

func (m *Model) LiveTopic(name string) *Topic {
	if t := m.Topics[name]; t != nil && t.Live {
		return t
	}
	return nil
}

func (m *Model) LiveSub(name string) *Sub {
	if s := m.Subs[name]; s != nil && s.Live {
		return s
	}
	return nil
}

func (m *Model) LiveSubs() []*Sub {
	var out []*Sub
	for _, s := range m.AllSubs {
		if s.Live {
			out = append(out, s)
		}
	}
	return out
}

// ---------------------------------------------------------------- config helpers

func (c SubCfg) retention() time.Duration {
	if c.Retention == 0 {
		return DefaultRetention
	}
	return time.Duration(c.Retention)
}

func (c SubCfg) ttl() time.Duration {
	if c.TTL == 0 {
		return DefaultTTL
	}
	return time.Duration(c.TTL)
}

func (c SubCfg) attempts() int {
	if c.DLTopic == "" {
		return 0
	}
	if c.MaxAttempts == 0 {
		return DefaultAttempts
	}
	return c.MaxAttempts
}

// Backoff is the retry delay after attempt n: min(maxBackoff, minBackoff*1.1^n).
func (c SubCfg) Backoff(n int) time.Duration {
	mn, mx := DefaultMinB, DefaultMaxB
	if c.HasRetry && c.MinB > 0 {
		mn = time.Duration(c.MinB)
	}
	if c.HasRetry && c.MaxB > 0 {
		mx = time.Duration(c.MaxB)
	}
	d := math.Pow(1.1, float64(n)) * mn.Seconds()
	if d > mx.Seconds() {
		d = mx.Seconds()
	}
	return time.Duration(d * float64(time.Second))
}

// lease returns the window [lo,hi] in which the retry deadline lies.
func (c SubCfg) lease(now time.Time, n int) (time.Time, time.Time) {
	d := c.Backoff(n)
	lo := now.Add(d)
	if d.Seconds() > 0.5 {
		return lo, lo.Add(time.Second)
	}
	return lo, lo
}

func (s *Sub) everDL(t *Topic) bool {
	for _, x := range s.EverDL {
		if x == t {
			return true
		}
	}
	return false
}

func (s *Sub) hasDL() bool { return s.Cfg.DLTopic != "" && s.DL != nil }

func matches(s *Sub, spec MsgSpec) bool {
	if s.Filter == nil {
		return true
	}
	a := spec.Attrs
	if a == nil {
		a = map[string]string{}
	}
	return s.Filter.Eval(a)
}

func parseFilter(text string) (*filt.Cond, bool) {
	if text == "" {
		return nil, true
	}
	toks, ok := filt.Lex(text)
	if !ok {
		return nil, false
	}
	v, c := filt.Recognise(toks)
	if v == filt.OUT || c == nil {
		return nil, false
	}
	return c, true
}

// ---------------------------------------------------------------- classification

type class int

const (
	clMustNot class = iota
	clMay
	clMust
	clDLCertain // due for dead-lettering: must be retired, never returned
	clDLMaybe
)

type cls struct {
	c      class
	reason string // for clMustNot
	prop   string
}

func (m *Model) expiry(d *Del, now time.Time) int { // -1 alive, 0 uncertain, +1 expired
	if d.Fuzzy || d.ExpUnknown {
		return 0
	}
	if !now.Before(d.Exp.Add(Eps)) {
		return 1
	}
	if !now.After(d.Exp.Add(-Eps)) {
		return -1
	}
	return 0
}

func (m *Model) due(d *Del, now time.Time) int { // -1 not due, 0 uncertain, +1 due
	if d.Fuzzy {
		return 0
	}
	if !now.Before(d.Hi.Add(Eps)) {
		return 1
	}
	if !now.After(d.Lo.Add(-Eps)) {
		return -1
	}
	return 0
}

// blocked: +1 certainly blocked by an outstanding same-key predecessor, -1
// certainly free, 0 uncertain.
func (m *Model) blocked(d *Del, now time.Time) (int, *Del) {
	s := d.Sub
	if !s.Cfg.Ordered || d.Msg.Spec.Key == "" {
		return -1, nil
	}
	res := -1
	var by *Del
	for _, p := range s.Dels {
		if p == d || p.Msg.Spec.Key != d.Msg.Spec.Key || p.Pub.After(d.Pub) {
			continue
		}
		switch p.State {
		case Acked, DLd:
			continue
		}
		e := m.expiry(p, now)
		if e == 1 {
			continue
		}
		// two forwards made by one operation carry the same time: which one the
		// implementation treats as the earlier is not specified
		tie := p.Pub.Equal(d.Pub)
		sameSource := p.Msg.Topic == d.Msg.Topic
		if p.State == Out && e == -1 && sameSource && !tie {
			return 1, p
		}
		res, by = 0, p
	}
	return res, by
}

func (m *Model) classify(d *Del, now time.Time) cls {
	switch d.State {
	case Acked:
		return cls{c: clMustNot, reason: "acked", prop: "C03"}
	case DLd:
		return cls{c: clMustNot, reason: "deadlettered", prop: "C06"}
	case Limbo:
		return cls{c: clMay}
	}
	e := m.expiry(d, now)
	if e == 1 {
		return cls{c: clMustNot, reason: "retention-over", prop: "C14"}
	}
	du := m.due(d, now)
	if du == -1 {
		if d.N == 0 {
			return cls{c: clMustNot, reason: "delivery-delay", prop: "C14"}
		}
		return cls{c: clMustNot, reason: "leased", prop: "C04"}
	}
	b, _ := m.blocked(d, now)
	if b == 1 {
		return cls{c: clMustNot, reason: "ordering-predecessor-outstanding", prop: "C05"}
	}
	certain := e == -1 && du == 1 && b == -1
	if d.Sub.hasDL() && d.N >= d.Sub.Cfg.attempts() {
		if certain {
			return cls{c: clDLCertain}
		}
		return cls{c: clDLMaybe}
	}
	if certain {
		return cls{c: clMust}
	}
	return cls{c: clMay}
}

// ---------------------------------------------------------------- operations

func (m *Model) newTopic(name string) *Topic {
	m.gen++
	t := &Topic{Gen: m.gen, Name: name, Live: true}
	m.Topics[name] = t
	return t
}

// CreateTopic returns the expected status.
func (m *Model) CreateTopic(name string) codes.Code {
	if m.LiveTopic(name) != nil {
		return codes.AlreadyExists
	}
	m.newTopic(name)
	return codes.OK
}

func (m *Model) DeleteTopic(name string) codes.Code {
	t := m.LiveTopic(name)
	if t == nil {
		return codes.NotFound
	}
	t.Live = false
	for n, sn := range m.Snaps {
		if sn.Topic == t {
			delete(m.Snaps, n)
		}
	}
	return codes.OK
}

func (m *Model) applyCfg(s *Sub, cfg SubCfg, resolveDL bool) codes.Code {
	dl := s.DL
	if resolveDL {
		dl = nil
		if cfg.DLTopic != "" {
			dl = m.LiveTopic(cfg.DLTopic)
			if dl == nil {
				return codes.NotFound
			}
		}
	}
	f, ok := parseFilter(cfg.Filter)
	if !ok {
		return codes.InvalidArgument
	}
	s.Cfg, s.DL, s.Filter = cfg, dl, f
	if dl != nil {
		s.EverDL = append(s.EverDL, dl)
	}
	return codes.OK
}

func (m *Model) CreateSub(name, topic string, cfg SubCfg, now time.Time) codes.Code {
	if m.LiveSub(name) != nil {
		return codes.AlreadyExists
	}
	t := m.LiveTopic(topic)
	if t == nil {
		return codes.NotFound
	}
	m.gen++
	s := &Sub{Gen: m.gen, Name: name, Live: true, Topic: t}
	if c := m.applyCfg(s, cfg, true); c != codes.OK {
		return c
	}
	s.Expires = now.Add(cfg.ttl())
	m.Subs[name] = s
	m.AllSubs = append(m.AllSubs, s)
	return codes.OK
}

func (m *Model) DeleteSub(name string) codes.Code {
	s := m.LiveSub(name)
	if s == nil {
		return codes.NotFound
	}
	s.Live = false
	return codes.OK
}

// UpdateSub applies the masked fields (E1 only generates the paths handled here).
func (m *Model) UpdateSub(name string, cfg SubCfg, mask []string, now time.Time) codes.Code {
	s := m.LiveSub(name)
	if s == nil {
		return codes.NotFound
	}
	nc := s.Cfg
	for _, p := range mask {
		switch p {
		case "filter":
			nc.Filter = cfg.Filter
		case "retry_policy":
			nc.HasRetry, nc.MinB, nc.MaxB = cfg.HasRetry, cfg.MinB, cfg.MaxB
		case "dead_letter_policy":
			nc.DLTopic, nc.MaxAttempts = cfg.DLTopic, cfg.MaxAttempts
		case "message_retention_duration":
			nc.Retention = cfg.Retention
		case "expiration_policy":
			nc.TTL = cfg.TTL
		default:
			return codes.InvalidArgument
		}
	}
	named := false
	for _, p := range mask {
		if p == "dead_letter_policy" {
			named = true
		}
	}
	old := *s
	if c := m.applyCfg(s, nc, named); c != codes.OK {
		*s = old
		return c
	}
	for _, p := range mask {
		if p == "expiration_policy" {
			s.Expires = now.Add(nc.ttl())
		}
	}
	return codes.OK
}

func (m *Model) newDel(s *Sub, msg *Msg, origin *Del, now time.Time) *Del {
	m.seq++
	at := now.Add(s.Delay)
	d := &Del{Seq: m.seq, Sub: s, Msg: msg, Origin: origin, State: Out, Lo: at, Hi: at, Exp: now.Add(s.Cfg.retention()), Pub: now}
	s.Dels = append(s.Dels, d)
	return d
}

// Publish applies a successful publish; ids are the ids from the response.
func (m *Model) Publish(topic string, msgs []MsgSpec, ids []string, now time.Time) {
	t := m.LiveTopic(topic)
	for i, spec := range msgs {
		// every message of a batch gets its own (later) timestamp
		at := now.Add(time.Duration(i) * time.Microsecond)
		msg := &Msg{Idx: len(m.Msgs), ID: ids[i], Topic: t, Spec: spec, Pub: at}
		m.Msgs = append(m.Msgs, msg)
		for _, s := range m.AllSubs {
			if s.Live && s.Topic == t && matches(s, spec) {
				// the stored publish time is somewhere between the start of the
				// request and a little after it; only the order inside the batch is
				// taken from the position
				m.newDel(s, msg, nil, at).PubLo = now
			}
		}
	}
}

func (m *Model) ExpectPublish(topic string, msgs []MsgSpec) codes.Code {
	if m.LiveTopic(topic) == nil {
		return codes.NotFound
	}
	for _, s := range msgs {
		if !json.Valid([]byte(s.Data)) {
			return codes.Unknown
		}
	}
	return codes.OK
}

// forward retires d from its subscription and enqueues the message on every
// live, filter-matching subscription of the (live) dead-letter topic.
func (m *Model) forward(d *Del, now time.Time) []*Del {
	d.State, d.Completed = DLd, now
	m.C["forwards"]++
	var out []*Del
	dl := d.Sub.DL
	if dl == nil || !dl.Live {
		m.C["forwards-dropped"]++
		return nil
	}
	for _, ts := range m.AllSubs {
		if ts.Live && ts.Topic == dl && matches(ts, d.Msg.Spec) {
			out = append(out, m.newDel(ts, d.Msg, d, now))
		}
	}
	if len(out) == 0 {
		m.C["forwards-no-target"]++
	}
	return out
}

// PullResult is the model's view of one Pull.
type PullResult struct {
	Returned  []*Del
	Truncated bool
	// Det: the model leaves the implementation no freedom in this pull (no
	// 'may' candidates, not truncated): its result is a function of the history
	Det bool
	// Uncertain: some candidate's eligibility is inside a time margin / unknown
	Uncertain bool
}

func jsonEqual(a, b []byte) bool {
	da, db := json.NewDecoder(bytes.NewReader(a)), json.NewDecoder(bytes.NewReader(b))
	da.UseNumber()
	db.UseNumber()
	var va, vb any
	if da.Decode(&va) != nil || db.Decode(&vb) != nil {
		return false
	}
	return reflect.DeepEqual(va, vb)
}

func attrsEqual(a, b map[string]string) bool {
	if len(a) != len(b) {
		return false
	}
	for k, v := range a {
		if w, ok := b[k]; !ok || w != v {
			return false
		}
	}
	return true
}

// Pull checks a successful pull response against the model and applies it.
func (m *Model) Pull(name string, max int, now time.Time, resp []*pubsubpb.ReceivedMessage) (res PullResult, viols []Viol) {
	s := m.LiveSub(name)
	learned := false // the response revealed a forward the model did not know of
	s.Expires = now.Add(s.Cfg.ttl())
	bad := func(prop, rule, f string, a ...any) {
		viols = append(viols, Viol{Prop: prop, Rule: rule, Detail: fmt.Sprintf("Pull(%s,max=%d) at +%v: ", name, max, now.Sub(epoch)) + fmt.Sprintf(f, a...)})
	}
	// classify
	cl := map[*Del]cls{}
	cands, nMust, nDL := 0, 0, 0
	for _, d := range s.Dels {
		c := m.classify(d, now)
		cl[d] = c
		if c.c != clMustNot {
			cands++
		}
		if c.c == clMust {
			nMust++
		}
		if c.c == clDLCertain || c.c == clDLMaybe {
			nDL++
		}
		// a delivery whose state the model does not know may be one the pull
		// retires into the dead-letter topic: it takes a row of the query's
		// LIMIT without appearing in the response
		if c.c == clMay && (d.State == Limbo || d.Fuzzy) && s.hasDL() {
			nDL++
		}
		if c.c == clMustNot && c.reason == "ordering-predecessor-outstanding" {
			m.C["nt/blocked-successor-at-pull"]++
			if _, by := m.blocked(d, now); by != nil {
				for _, x := range s.Dels {
					if x.Pub.After(by.Pub) && x.Pub.Before(d.Pub) && x.Msg.Spec.Key != d.Msg.Spec.Key {
						m.C["nt/blocked-successor-with-other-key-between"]++
						break
					}
				}
			}
		}
		if c.c == clMustNot && c.reason == "leased" {
			m.C["nt/leased-at-pull"]++
		}
		if c.c == clMustNot && c.reason == "retention-over" {
			m.C["nt/expired-at-pull"]++
		}
		if c.c == clMustNot && c.reason == "delivery-delay" {
			m.C["nt/delayed-at-pull"]++
		}
		if c.c == clMustNot && c.reason == "acked" {
			m.C["nt/acked-at-pull"]++
		}
	}
	res.Truncated = cands > max
	res.Det = !res.Truncated
	for _, c := range cl {
		if c.c == clMay || c.c == clDLMaybe {
			res.Det = false
			res.Uncertain = true
		}
	}
	if len(resp) > max && !m.Session {
		bad("C02", "too-many", "returned %d messages", len(resp))
	}
	// match
	byAck := map[string]*Del{}
	for _, d := range s.Dels {
		if d.AckID != "" {
			byAck[d.AckID] = d
		}
	}
	seenAck := map[string]bool{}
	got := map[*Del]bool{}
	for _, rm := range resp {
		if seenAck[rm.AckId] {
			bad("C02", "duplicate-in-response", "ack id %s twice in one response", rm.AckId)
			continue
		}
		seenAck[rm.AckId] = true
		d := byAck[rm.AckId]
		if d == nil {
			// first delivery: bind by message id among never-delivered deliveries
			// (a message can have several deliveries here - dead-letter forwards -
			// so prefer one that may be delivered now, then the earliest)
			for _, c := range s.Dels {
				if c.AckID == "" && c.Msg.ID == rm.Message.GetMessageId() && !got[c] {
					// rank: forbidden < allowed < owed. Binding the response to a delivery
					// that is merely ALLOWED while an OWED delivery of the same message sits
					// on the subscription (an expired original that a seek may have
					// revived, next to a fresh dead-letter re-arrival through a topic
					// loop) would leave the owed one unbound and report it as missing.
					rank := func(x *Del) int {
						switch cl[x].c {
						case clMustNot:
							return 0
						case clMust:
							return 2
						}
						return 1
					}
					better := d == nil || rank(c) > rank(d) || (rank(c) == rank(d) && c.Pub.Before(d.Pub))
					if better {
						d = c
					}
				}
			}
			if d == nil {
				// a source delivery whose state the model does not know (limbo)
				// may have been dead-lettered into this subscription
				for _, o := range m.AllSubs {
					for _, x := range o.Dels {
						if d == nil && (x.State == Limbo || x.Fuzzy) && x.Msg.ID == rm.Message.GetMessageId() && o.everDL(s.Topic) && matches(s, x.Msg.Spec) {
							x.State, x.Completed = DLd, now
							d = m.newDel(s, x.Msg, x, now)
							d.Fuzzy = true
							cl[d] = cls{c: clMay}
							m.C["forward-learned-from-limbo"]++
							learned = true
						}
					}
				}
			}
			if d == nil {
				bad("C02", "not-rightful", "returned message %s (ack id %s, attempt %d) which is not outstanding on this subscription: %s", rm.Message.GetMessageId(), rm.AckId, rm.DeliveryAttempt, m.describeMsg(rm.Message.GetMessageId(), s))
				continue
			}
			d.AckID = rm.AckId
			byAck[rm.AckId] = d
		}
		got[d] = true
		c := cl[d]
		if c.c == clMustNot {
			sig := map[string]any{"reason": c.reason}
			if c.reason == "ordering-predecessor-outstanding" {
				_, by := m.blocked(d, now)
				between := false
				for _, x := range s.Dels {
					if by != nil && x.Pub.After(by.Pub) && x.Pub.Before(d.Pub) && x.Msg.Spec.Key != d.Msg.Spec.Key {
						between = true
					}
				}
				sig["other_key_between"] = between
				// the implementation orders by a link to the *previous* same-key
				// delivery only; after a rewinding seek an older, revived message
				// is not waited for (known finding F12)
				// (F12's shape precisely: the blocking message was revived by a
				// seek, and the *direct* predecessor - the most recent earlier
				// same-key delivery, the only one the implementation links to - is
				// itself settled)
				var dp *Del
				for _, x := range s.Dels {
					if x != d && x.Msg.Spec.Key == d.Msg.Spec.Key && x.Pub.Before(d.Pub) && (dp == nil || x.Pub.After(dp.Pub)) {
						dp = x
					}
				}
				// (expired includes "within the clock margin of its expiry": the
				// implementation's own comparison decides there)
				dpSettled := dp != nil && (dp.State == Acked || dp.State == DLd || m.expiry(dp, now) >= 0)
				sig["revived_predecessor"] = by != nil && by.Seek && dp != by && dpSettled
				// the same link-to-the-previous-delivery-only design shows without
				// a seek when retention was changed between publishes: the direct
				// predecessor expires before an older same-key message does (F12b)
				// (also its follow-on in the same history: once a direct predecessor
				// was handed out that way and acknowledged, its own successor is
				// released the same way)
				sig["expired_direct_predecessor"] = by != nil && !by.Seek && dp != nil && dp != by && dpSettled
				// several same-key deliveries created by one operation (dead-letter
				// forwards) carry one time: "the most recent earlier delivery" is
				// then not well defined, which is a defect of its own (F19) and not
				// the link-only design of F12
				tie := false
				for _, x := range s.Dels {
					if dp != nil && x != dp && x != d && x.Msg.Spec.Key == d.Msg.Spec.Key && x.Pub.Equal(dp.Pub) {
						tie = true
					}
				}
				sig["predecessor_tie"] = tie
				viols = append(viols, Viol{Prop: c.prop, Rule: "must-not/" + c.reason, Sig: sig, Detail: fmt.Sprintf("Pull(%s) at +%v returned message #%d (key %q) while earlier message #%d with the same key is still outstanding (attempts %d, state %s)", name, now.Sub(epoch), d.Msg.Idx, d.Msg.Spec.Key, by.Msg.Idx, by.N, by.State)})
			} else {
				var also []string
				if d.Seek && c.reason == "acked" {
					also = append(also, "C13")
				}
				if d.Seek && c.reason == "retention-over" {
					// a seek gives what it revives a fresh retention of the
					// subscription's message retention, no more
					also = append(also, "C13")
				}
				if c.reason != "retention-over" && m.expiry(d, now) == 1 {
					// whatever else is wrong with it, it is also past its retention
					also = append(also, "C14")
				}
				if c.reason == "acked" {
					// an acknowledged message coming back on a subscription whose
					// sibling (same message) was touched by a seek: one
					// subscription's seek changed what another receives
					for _, o := range m.AllSubs {
						if o == s {
							continue
						}
						for _, x := range o.Dels {
							if x.Msg == d.Msg && x.Seek && !d.Seek {
								also = append(also, "C02")
							}
						}
					}
				}
				viols = append(viols, Viol{Prop: c.prop, Also: also, Rule: "must-not/" + c.reason, Sig: sig, Detail: fmt.Sprintf("Pull(%s) at +%v returned message #%d (attempt %d) which must not be delivered now: %s [lease %v..%v, expires %v, delivered %d times]", name, now.Sub(epoch), d.Msg.Idx, rm.DeliveryAttempt, c.reason, d.Lo.Sub(epoch), d.Hi.Sub(epoch), d.Exp.Sub(epoch), d.N)})
			}
		}
		if s.hasDL() && d.N >= s.Cfg.attempts() && d.State == Out {
			viols = append(viols, Viol{Prop: "C06", Rule: "over-max-attempts", Detail: fmt.Sprintf("Pull(%s) delivered message #%d a %d-th time with a dead-letter policy of %d attempts", name, d.Msg.Idx, d.N+1, s.Cfg.attempts())})
		}
		if d.State != Limbo && !d.Fuzzy && int(rm.DeliveryAttempt) != d.N+1 {
			bad("C04", "delivery-attempt", "message #%d reported delivery_attempt=%d, expected %d", d.Msg.Idx, rm.DeliveryAttempt, d.N+1)
		}
		// fidelity
		pm := rm.Message
		if pm.GetMessageId() != d.Msg.ID {
			bad("C02", "fidelity/id", "ack id %s carries message id %s, Publish returned %s", rm.AckId, pm.GetMessageId(), d.Msg.ID)
		}
		if !jsonEqual(pm.GetData(), []byte(d.Msg.Spec.Data)) {
			bad("C02", "fidelity/payload", "message #%d payload %q differs as a JSON value from published %q", d.Msg.Idx, pm.GetData(), d.Msg.Spec.Data)
		}
		if !attrsEqual(pm.GetAttributes(), d.Msg.Spec.Attrs) {
			bad("C02", "fidelity/attributes", "message #%d attributes %v, published %v", d.Msg.Idx, pm.GetAttributes(), d.Msg.Spec.Attrs)
		}
		if pm.GetOrderingKey() != d.Msg.Spec.Key {
			bad("C02", "fidelity/ordering-key", "message #%d ordering key %q, published %q", d.Msg.Idx, pm.GetOrderingKey(), d.Msg.Spec.Key)
		}
		if d.Origin == nil && pm.GetPublishTime() != nil {
			d.PubExact = pm.GetPublishTime().AsTime()
		}
	}
	if len(resp) >= 2 {
		fs := map[string]bool{}
		for _, o := range m.AllSubs {
			if o.Live && o.Topic == s.Topic {
				fs[o.Cfg.Filter] = true
			}
		}
		if len(fs) >= 2 {
			m.C["nt/multi-message-response-on-shared-topic"]++
		}
	}
	// completeness (cannot be judged when the response holds deliveries the
	// model excludes: they took slots of the query's LIMIT and are violations
	// of their own rules)
	unexpected := false
	for d := range got {
		if cl[d].c == clMustNot {
			unexpected = true
		}
	}
	// (nor when the response showed a forward the model did not know of: what
	// was owed was computed without it, and on an ordered subscription it holds
	// back its same-key successors)
	if unexpected || m.Session || learned {
		m.C["completeness-not-judged"]++
	} else if !res.Truncated {
		for _, d := range s.Dels {
			if cl[d].c == clMust && !got[d] {
				why := "never delivered yet"
				if d.N > 0 {
					why = fmt.Sprintf("delivered %d times, retry deadline passed at +%v", d.N, d.Hi.Sub(epoch))
				}
				var also []string
				if d.Seek {
					also = append(also, "C13")
				}
				if d.N > 0 {
					also = append(also, "C04")
				}
				if d.Origin != nil {
					also = append(also, "C06")
				}
				also = append(also, "C14")
				// "acks, seeks, deletes of one subscription never change what
				// another receives": the same message on a sibling subscription was
				// acked, dead-lettered, touched by a seek or lost its subscription
				sibling := false
				for _, o := range m.AllSubs {
					if o == s {
						continue
					}
					for _, x := range o.Dels {
						if x.Msg == d.Msg && (x.State == Acked || x.State == DLd || x.Seek || !o.Live) {
							sibling = true
						}
					}
				}
				if sibling {
					also = append(also, "C02")
				}
				viols = append(viols, Viol{Prop: "C01", Also: also, Rule: "must-missing", Sig: map[string]any{"delivered_before": d.N > 0}, Detail: fmt.Sprintf("Pull(%s,max=%d) at +%v did not return message #%d which is outstanding and due (%s; expires +%v; %d candidates)", name, max, now.Sub(epoch), d.Msg.Idx, why, d.Exp.Sub(epoch), cands)})
			}
		}
	} else if nDL == 0 {
		want := nMust
		if want > max {
			want = max
		}
		if len(resp) < want {
			bad("C01", "pull-short", "returned %d messages although %d are outstanding and due", len(resp), nMust)
		}
	}
	// apply
	for _, d := range s.Dels {
		if !got[d] {
			continue
		}
		if d.State == Limbo || d.Fuzzy {
			// the model did not know this delivery's state; being delivered shows
			// it is outstanding and alive now, its attempt count comes from the
			// response, and if the model's retention end cannot be right the true
			// one stays unknown
			d.State, d.Fuzzy = Out, false
			d.N = 0
			for _, rm := range resp {
				if rm.AckId == d.AckID {
					d.N = int(rm.DeliveryAttempt) - 1
				}
			}
			// (a seek that may or may not have revived it may or may not have
			// given it a fresh retention)
			if d.Seek || !now.Before(d.Exp.Add(-Eps)) {
				d.ExpUnknown = true
			}
		}
		d.N++
		if d.N > m.C["max-attempt"] {
			m.C["max-attempt"] = d.N
		}
		d.Lo, d.Hi = s.Cfg.lease(now, d.N)
		res.Returned = append(res.Returned, d)
		m.Rcv = append(m.Rcv, d)
		if d.N > 1 {
			m.C["redeliveries"]++
		}
	}
	// dead-lettering seen by this pull
	for _, d := range append([]*Del(nil), s.Dels...) {
		c := cl[d]
		if got[d] || (c.c != clDLCertain && c.c != clDLMaybe) {
			continue
		}
		if c.c == clDLCertain && !res.Truncated {
			m.forward(d, now)
			m.C["forward-by-pull"]++
			continue
		}
		if m.Peek != nil && d.AckID != "" {
			if done, ok := m.Peek.DeliveryCompleted(d.AckID); ok && done {
				m.forward(d, now)
				m.C["forward-by-pull"]++
			}
		}
	}
	return
}

func (m *Model) describeMsg(id string, s *Sub) string {
	for _, msg := range m.Msgs {
		if msg.ID == id {
			why := "no delivery was ever created for it here"
			if msg.Topic != s.Topic {
				why = "it was published to another topic (" + msg.Topic.Name + ")"
			} else if !matches(s, msg.Spec) {
				why = "it does not satisfy the filter " + s.Cfg.Filter
			}
			return fmt.Sprintf("message #%d, %s", msg.Idx, why)
		}
	}
	return "unknown message id"
}

// Ack applies an Acknowledge naming the given deliveries under subscription `as`.
func (m *Model) Ack(as string, dels []*Del, now time.Time) {
	for _, d := range dels {
		switch d.State {
		case Out, Limbo:
			if d.Sub.Name != as && d.State == Out {
				// a foreign id may or may not be honoured: learn which from the row
				m.C["foreign-acks"]++
				d.State, d.Completed = Limbo, now
				if m.Peek != nil && d.AckID != "" {
					if done, ok := m.Peek.DeliveryCompleted(d.AckID); ok {
						if done {
							d.State = Acked
						} else {
							d.State = Out
						}
					}
				}
				continue
			}
			if d.Sub.Name == as {
				d.State, d.Completed = Acked, now
			}
		case Acked:
			m.C["duplicate-acks"]++
		}
	}
}

// ModAck applies ModifyAckDeadline.
func (m *Model) ModAck(dels []*Del, secs int, now time.Time) {
	for _, d := range dels {
		if d.State != Out {
			if d.State == Acked {
				m.C["modack-after-ack"]++
			}
			continue
		}
		at := now.Add(time.Duration(secs) * time.Second)
		if secs > 0 {
			if at.Before(d.Lo) {
				d.Probe = at
			}
			if d.Lo.Before(at) {
				d.Lo = at
			}
			if d.Hi.Before(at) {
				d.Hi = at
			}
		} else {
			d.Lo, d.Hi = at, at
		}
	}
}

// Nack applies the streamer's nack.
func (m *Model) Nack(dels []*Del, now time.Time) {
	for _, d := range dels {
		if d.State == Acked {
			m.C["nack-after-ack"]++
		}
		if d.State != Out {
			continue
		}
		switch m.expiry(d, now) {
		case 1:
			continue
		case 0:
			d.Fuzzy = true
			continue
		}
		s := d.Sub
		if s.hasDL() && d.N >= s.Cfg.attempts() {
			if !s.Live {
				// nack of a delivery of a deleted subscription: whether it is still
				// forwarded is not pinned down by the statement
				for _, nd := range m.forward(d, now) {
					nd.State, nd.Fuzzy = Limbo, true
				}
				continue
			}
			m.forward(d, now)
			m.C["forward-by-nack"]++
			continue
		}
		d.Lo, d.Hi = s.Cfg.lease(now, d.N)
	}
}

// Sweep applies the background dead-letter sweep (batch large enough).
func (m *Model) Sweep(now time.Time, batch int) {
	var certain, maybe []*Del
	for _, s := range m.AllSubs {
		if !s.Live || !s.hasDL() {
			continue
		}
		for _, d := range s.Dels {
			if d.State != Out || d.N < s.Cfg.attempts() {
				continue
			}
			e, du := m.expiry(d, now), m.due(d, now)
			if e == 1 || du == -1 {
				continue
			}
			if e == -1 && du == 1 {
				certain = append(certain, d)
			} else {
				maybe = append(maybe, d)
			}
		}
	}
	if len(certain)+len(maybe) <= batch {
		for _, d := range certain {
			m.forward(d, now)
			m.C["forward-by-sweep"]++
		}
	} else {
		maybe = append(maybe, certain...)
	}
	for _, d := range maybe {
		if m.Peek != nil && d.AckID != "" {
			if done, ok := m.Peek.DeliveryCompleted(d.AckID); ok && done {
				m.forward(d, now)
				m.C["forward-by-sweep"]++
			}
		}
	}
}

func (m *Model) pubCmp(d *Del, t time.Time) int { // -1: pub<=t, +1: pub>t, 0 unknown
	if !d.PubExact.IsZero() {
		if d.PubExact.After(t) {
			return 1
		}
		return -1
	}
	lo := d.Pub
	if !d.PubLo.IsZero() {
		lo = d.PubLo
	}
	if t.Before(lo) {
		return 1
	}
	if !t.Before(d.Pub.Add(Eps)) {
		return -1
	}
	return 0
}

func (m *Model) revive(d *Del, now time.Time) {
	d.ExpUnknown = false
	if d.PrunedMay {
		m.C["limbo-by-prune-then-rewind"]++
		d.State, d.Fuzzy = Limbo, true
		return
	}
	d.State = Out
	d.Lo, d.Hi = now, now
	d.Exp = now.Add(d.Sub.Cfg.retention())
	d.Fuzzy = false
	m.C["revived"]++
}

// SeekTime applies Seek(time).
func (m *Model) SeekTime(name string, t, now time.Time) {
	s := m.LiveSub(name)
	for _, d := range s.Dels {
		e := m.expiry(d, now)
		if e == 1 {
			continue
		}
		d.Seek = true // from here on this delivery's state was decided by a seek
		if e == 0 {
			// within the clock margin of its retention end: the seek may or may not
			// have touched it. That also holds for an acknowledged delivery that a
			// prune job may have removed: if it was NOT removed and the seek revived
			// it, it is outstanding again and holds back its same-key successors.
			d.State, d.Fuzzy = Limbo, true
			continue
		}
		switch m.pubCmp(d, t) {
		case -1:
			if d.State == Out || d.State == Limbo {
				d.State, d.Completed, d.Seek = Acked, now, true
				m.C["seek-acked"]++
			}
		case 1:
			switch d.State {
			case Acked, DLd:
				d.Seek = true
				m.revive(d, now)
			case Limbo:
				d.Fuzzy = true
			}
		default:
			d.State, d.Fuzzy = Limbo, true
		}
	}
}

// Snapshot records the spec-level content of a snapshot.
func (m *Model) Snapshot(name, sub string, now time.Time) codes.Code {
	if m.Snaps[name] != nil {
		return codes.AlreadyExists
	}
	s := m.LiveSub(sub)
	if s == nil {
		return codes.NotFound
	}
	sn := &Snap{Name: name, Topic: s.Topic, SubG: s.Gen, T: now, U: map[int]bool{}, Fuzz: map[int]bool{}, Had: map[int]bool{}}
	for _, d := range s.Dels {
		sn.Had[d.Msg.Idx] = true
		switch {
		case d.State == Out && m.expiry(d, now) == -1:
			sn.U[d.Msg.Idx] = true
		case d.State == Limbo, d.State == Out && m.expiry(d, now) == 0:
			sn.Fuzz[d.Msg.Idx] = true
		}
	}
	m.Snaps[name] = sn
	return codes.OK
}

func (m *Model) ExpectSeekSnap(sub, snap string) codes.Code {
	if m.LiveSub(sub) == nil || m.Snaps[snap] == nil {
		return codes.NotFound
	}
	return codes.OK
}

// SeekSnap applies Seek(snapshot).
func (m *Model) SeekSnap(sub, snap string, now time.Time) {
	s, sn := m.LiveSub(sub), m.Snaps[snap]
	for _, d := range s.Dels {
		d.Seek = true
		e := m.expiry(d, now)
		// a message the snapshotted subscription never held (the two
		// subscriptions' filters differed at some time) and that is older than
		// the snapshot: whether it counts as acknowledged is not defined
		foreign := s.Gen != sn.SubG && !sn.Had[d.Msg.Idx] && m.pubCmp(d, sn.T) != 1
		if e != -1 || sn.Fuzz[d.Msg.Idx] || d.Origin != nil || foreign {
			// expiry x snapshot seek and forwarded deliveries: outside what the
			// statement pins down (the implementation revives a completed delivery
			// whose retention is over with a fresh retention; "restores exactly the
			// set" and "never delivered after its retention" both read on it)
			d.State, d.Fuzzy = Limbo, true
			continue
		}
		after := m.pubCmp(d, sn.T)
		wantOut := sn.U[d.Msg.Idx] || after == 1
		if after == 0 && !sn.U[d.Msg.Idx] {
			d.State, d.Fuzzy = Limbo, true
			continue
		}
		switch {
		case wantOut && (d.State == Acked || d.State == DLd):
			d.Seek = true
			m.revive(d, now)
		case wantOut && d.State == Limbo:
			d.Fuzzy = true
		case !wantOut && (d.State == Out || d.State == Limbo):
			d.State, d.Completed, d.Seek = Acked, now, true
			m.C["seek-acked"]++
		}
	}
}

// Job applies a prune job: nothing client visible; completed deliveries older
// than minAge may lose their row (a later rewinding seek cannot revive them).
func (m *Model) Job(kind string, minAge time.Duration, now time.Time) {
	if kind != "completed-deliveries" {
		return
	}
	for _, s := range m.AllSubs {
		for _, d := range s.Dels {
			if (d.State == Acked || d.State == DLd || d.State == Limbo) && !d.Completed.IsZero() && !d.Completed.After(now.Add(-minAge).Add(Eps)) {
				d.PrunedMay = true
			}
		}
	}
}

// ExpireCandidates returns the subscriptions that a sweep at `now` must
// expire, must not expire, and may expire.
func (m *Model) ExpireCandidates(now time.Time) (must, mustNot, may []*Sub) {
	for _, s := range m.LiveSubs() {
		switch {
		case !now.Before(s.Expires.Add(Eps)):
			must = append(must, s)
		case !now.After(s.Expires.Add(-Eps)):
			mustNot = append(mustNot, s)
		default:
			may = append(may, s)
		}
	}
	return
}

// Owed lists the deliveries the system still owes on live subscriptions.
func (m *Model) Owed(now time.Time) []*Del {
	var out []*Del
	for _, s := range m.LiveSubs() {
		for _, d := range s.Dels {
			if d.State == Out && m.expiry(d, now) == -1 {
				out = append(out, d)
			}
		}
	}
	return out
}

var epoch time.Time

// SetEpoch tells the model where virtual time starts (for messages only).
func SetEpoch(t time.Time) { epoch = t }

// Summary renders the state of a subscription (for failure details).
func (m *Model) Summary(s *Sub, now time.Time) string {
	var sb strings.Builder
	ds := append([]*Del(nil), s.Dels...)
	sort.Slice(ds, func(i, j int) bool { return ds[i].Seq < ds[j].Seq })
	for _, d := range ds {
		b, _ := m.blocked(d, now)
		fmt.Fprintf(&sb, "  #%d key=%q %s n=%d lease=[+%v,+%v] exp=+%v pub=+%v fuzzy=%v expunknown=%v seek=%v blocked=%d class=%v\n", d.Msg.Idx, d.Msg.Spec.Key, d.State, d.N, d.Lo.Sub(epoch), d.Hi.Sub(epoch), d.Exp.Sub(epoch), d.Pub.Sub(epoch), d.Fuzzy, d.ExpUnknown, d.Seek, b, m.classify(d, now).c)
	}
	return sb.String()
}
