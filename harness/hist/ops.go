// Package hist is the history engine (E1): an operation language over the
// real gRPC API, a reference model of Pub/Sub semantics written from the
// property statements, an interpreter that runs histories against a SUT and
// feeds every response to the model's oracles, and rapid generators.
package hist

import (
	"fmt"
	"time"
)

// SubCfg is the configuration of a subscription as a client states it.
type SubCfg struct {
	Filter      string `json:"filter,omitempty"`
	Ordered     bool   `json:"ordered,omitempty"`
	HasRetry    bool   `json:"has_retry,omitempty"`
	MinB        int64  `json:"minb,omitempty"` // ns, 0 = absent
	MaxB        int64  `json:"maxb,omitempty"` // ns, 0 = absent
	DLTopic     string `json:"dl,omitempty"`   // short topic name
	MaxAttempts int    `json:"n,omitempty"`    // 0 = default (5) when DLTopic is set
	Retention   int64  `json:"ret,omitempty"`  // ns, 0 = default 7d
	TTL         int64  `json:"ttl,omitempty"`  // ns, 0 = default 30d
}

type MsgSpec struct {
	Data  string            `json:"data"`
	Attrs map[string]string `json:"attrs,omitempty"`
	Key   string            `json:"key,omitempty"`
}

// Op is one step of a history. Handles (H) index the deliveries received so
// far in the history (in order of receipt), so a history is plain data and can
// be replayed without the generator.
type Op struct {
	K     string    `json:"k"`
	T     string    `json:"t,omitempty"`
	S     string    `json:"s,omitempty"`
	N     string    `json:"n,omitempty"` // snapshot name
	As    string    `json:"as,omitempty"`
	Cfg   *SubCfg   `json:"cfg,omitempty"`
	Mask  []string  `json:"mask,omitempty"`
	Msgs  []MsgSpec `json:"msgs,omitempty"`
	Max   int       `json:"max,omitempty"`
	H     []int     `json:"h,omitempty"`
	H2    []int     `json:"h2,omitempty"`
	Raw   []string  `json:"raw,omitempty"`
	Secs  int       `json:"secs,omitempty"`
	At    int64     `json:"at,omitempty"` // ns after Epoch
	D     int64     `json:"d,omitempty"`  // ns
	Job   string    `json:"job,omitempty"`
	Batch int       `json:"batch,omitempty"`
	Page  int       `json:"page,omitempty"`
	Proj  string    `json:"proj,omitempty"`
	Note  string    `json:"note,omitempty"`
}

const (
	OpCreateTopic = "CreateTopic"
	OpDeleteTopic = "DeleteTopic"
	OpCreateSub   = "CreateSub"
	OpDeleteSub   = "DeleteSub"
	OpUpdateSub   = "UpdateSub"
	OpPublish     = "Publish"
	OpPull        = "Pull"
	OpAck         = "Ack"
	OpModAck      = "ModAck"
	OpNack        = "Nack"      // streamer ack/nack transaction with nacks
	OpStreamAck   = "StreamAck" // streamer ack/nack transaction with acks
	OpSeekTime    = "SeekTime"
	OpSeekSnap    = "SeekSnap"
	OpSnapshot    = "Snapshot"
	OpDelSnapshot = "DeleteSnapshot"
	OpJob         = "Job"
	OpSweep       = "Sweep"
	OpExpireSubs  = "ExpireSubs"
	OpAdvance     = "Advance"
	OpSetDelay    = "SetDelay"
	OpStream      = "Stream" // a StreamingPull session over gRPC: H = ack ids in the initial request, H2 = ack ids in a second request
	OpGetSub      = "GetSub"
	OpGetTopic    = "GetTopic"
)

var JobKinds = []string{"completed-deliveries", "expired-deliveries", "completed-messages", "deleted-subscription-deliveries", "deleted-subscriptions", "deleted-topics"}

func TopicName(t string) string { return "projects/p/topics/" + t }
func SubName(s string) string   { return "projects/p/subscriptions/" + s }
func SnapName(n string) string  { return "projects/p/snapshots/" + n }

func (o Op) String() string {
	switch o.K {
	case OpAdvance:
		return fmt.Sprintf("Advance(%v)", time.Duration(o.D))
	case OpPublish:
		return fmt.Sprintf("Publish(%s,%d msgs)", o.T, len(o.Msgs))
	case OpPull:
		return fmt.Sprintf("Pull(%s,max=%d)", o.S, o.Max)
	case OpAck, OpModAck, OpNack, OpStreamAck:
		return fmt.Sprintf("%s(%s,h=%v,secs=%d)", o.K, o.S, o.H, o.Secs)
	case OpSeekTime:
		return fmt.Sprintf("SeekTime(%s,+%v)", o.S, time.Duration(o.At))
	case OpJob:
		return fmt.Sprintf("Job(%s,minAge=%v,batch=%d)", o.Job, time.Duration(o.D), o.Batch)
	}
	return fmt.Sprintf("%s(t=%s s=%s n=%s)", o.K, o.T, o.S, o.N)
}

const (
	DefaultRetention = 7 * 24 * time.Hour
	DefaultTTL       = 30 * 24 * time.Hour
	DefaultAttempts  = 5
	DefaultMinB      = 10 * time.Second
	DefaultMaxB      = 10 * time.Minute
	Eps              = 10 * time.Millisecond
)
