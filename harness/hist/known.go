package hist

import (
	"bufio"
	"encoding/json"
	"os"
	"reflect"
	"strings"
)

// Known findings (read-only at run time): a violation whose rule and
// signature match a listed, unrepaired finding is recorded (the driver prints
// a KNOWN-FINDING line for it) but does not stop the search, so that
// different violations behind it are still looked for.
type Known struct {
	ID         string   `json:"id"`
	Status     string   `json:"status"`
	Property   string   `json:"property"`
	Properties []string `json:"properties"`
	Match      struct {
		Rule      string         `json:"rule"`
		Signature map[string]any `json:"signature"`
	} `json:"match"`
	What string `json:"what"`
}

var knownList []Known
var knownLoaded bool

func loadKnown() {
	if knownLoaded {
		return
	}
	knownLoaded = true
	p := os.Getenv("VERIF_KNOWN")
	if p == "" {
		p = "/verif/known-findings.jsonl"
	}
	f, err := os.Open(p)
	if err != nil {
		return
	}
	defer f.Close()
	sc := bufio.NewScanner(f)
	sc.Buffer(make([]byte, 1<<20), 1<<20)
	for sc.Scan() {
		line := strings.TrimSpace(sc.Text())
		if line == "" || strings.HasPrefix(line, "#") {
			continue
		}
		var k Known
		if json.Unmarshal([]byte(line), &k) == nil && k.Status == "known" {
			knownList = append(knownList, k)
		}
	}
}

// MatchKnown returns the id of the listed known finding that a violation
// matches, or "".
func MatchKnown(rule string, sig map[string]any) string {
	loadKnown()
	for _, k := range knownList {
		if k.Match.Rule != "" && k.Match.Rule != rule {
			continue
		}
		ok := true
		for a, b := range k.Match.Signature {
			if !reflect.DeepEqual(sig[a], b) {
				ok = false
			}
		}
		if ok {
			return k.ID
		}
	}
	return ""
}
