package hist

import (
	"context"
	"fmt"
	"io"
	"sort"
	"strings"
	"time"

	"cloud.google.com/go/pubsub/apiv1/pubsubpb"
	"github.com/google/uuid"
	"google.golang.org/grpc/codes"
	"google.golang.org/grpc/status"
	"google.golang.org/protobuf/types/known/durationpb"
	"google.golang.org/protobuf/types/known/fieldmaskpb"
	"google.golang.org/protobuf/types/known/timestamppb"

	"go.6river.tech/mmmbbb/actions"
	"go.6river.tech/mmmbbb/services"

	"verif/sut"
)

// TraceEntry is the client-visible result of one step (used by the
// metamorphic comparisons: projection in C02, prune splicing in C15).
type TraceEntry struct {
	Op     int      `json:"op"`
	Kind   string   `json:"kind"`
	Target string   `json:"target,omitempty"`
	Code   string   `json:"code"`
	Pull   []string `json:"pull,omitempty"` // "#msgIdx@attempt", sorted
	N      int      `json:"n,omitempty"`
	Info   string   `json:"info,omitempty"`
}

// Runner executes a history against a SUT and the model.
type Runner struct {
	S     *sut.SUT
	M     *Model
	Ctx   context.Context
	Armed map[string]bool // properties whose rules are armed; nil = all
	Ops   []Op
	Trace []TraceEntry
	Viol  *Viol
	// Diverged is set when the implementation's status differs from the model's
	// in a run whose property does not arm the status rule: the case ends.
	Diverged string
	JobErrs  []string
	// KnownHits: violations that match a listed known finding (recorded, the
	// history goes on)
	KnownHits map[string]Viol
	// PruneRewindAt: first step after which a rewinding seek met deliveries a
	// prune job may have removed (documented, by-design difference), or -1
	PruneRewindAt int
	// NoModel: run without oracles (twin runs only need the trace)
	step int
}

func NewRunner(s *sut.SUT, armed ...string) *Runner {
	r := &Runner{S: s, M: NewModel(), Ctx: context.Background(), PruneRewindAt: -1}
	if len(armed) > 0 {
		r.Armed = map[string]bool{}
		for _, a := range armed {
			r.Armed[a] = true
		}
	}
	r.M.Peek = r
	SetEpoch(sut.Epoch)
	return r
}

// DeliveryCompleted implements Peeker.
func (r *Runner) DeliveryCompleted(ackID string) (bool, bool) {
	var n int
	var completed *string
	row := r.S.Raw.QueryRow("SELECT count(*), max(completed_at) FROM deliveries WHERE id = ?", ackID)
	if err := row.Scan(&n, &completed); err != nil || n == 0 {
		return false, false
	}
	return completed != nil, true
}

func (r *Runner) armed(prop string) bool { return r.Armed == nil || r.Armed[prop] }

func (r *Runner) report(vs []Viol) {
	for i := range vs {
		ok := r.armed(vs[i].Prop)
		for _, a := range vs[i].Also {
			ok = ok || r.armed(a)
		}
		if r.Viol == nil && ok {
			v := vs[i]
			if id := MatchKnown(v.Rule, v.Sig); id != "" {
				if r.KnownHits == nil {
					r.KnownHits = map[string]Viol{}
				}
				if _, dup := r.KnownHits[id]; !dup {
					r.KnownHits[id] = v
				}
				continue
			}
			r.Viol = &v
		}
	}
}

func (r *Runner) expect(op Op, want codes.Code, err error) bool {
	got := status.Code(err)
	if got == want {
		return got == codes.OK
	}
	detail := fmt.Sprintf("step %d %s: status %s (%v), the model expects %s", r.step, op, got, err, want)
	if r.armed("C12") || r.armed("STATUS") {
		if r.Viol == nil {
			r.Viol = &Viol{Prop: "C12", Rule: "status/" + op.K, Detail: detail, Sig: map[string]any{"got": got.String(), "want": want.String()}}
		}
	} else if r.Diverged == "" {
		r.Diverged = detail
	}
	return false
}

func durpb(ns int64) *durationpb.Duration {
	if ns == 0 {
		return nil
	}
	return durationpb.New(time.Duration(ns))
}

// SubPB renders a subscription config as the client would send it.
func SubPB(name, topic string, c SubCfg) *pubsubpb.Subscription {
	p := &pubsubpb.Subscription{Name: SubName(name), Topic: TopicName(topic), Filter: c.Filter, EnableMessageOrdering: c.Ordered}
	if c.HasRetry {
		p.RetryPolicy = &pubsubpb.RetryPolicy{MinimumBackoff: durpb(c.MinB), MaximumBackoff: durpb(c.MaxB)}
	}
	if c.DLTopic != "" {
		p.DeadLetterPolicy = &pubsubpb.DeadLetterPolicy{DeadLetterTopic: TopicName(c.DLTopic), MaxDeliveryAttempts: int32(c.MaxAttempts)}
	}
	if c.Retention != 0 {
		p.MessageRetentionDuration = durpb(c.Retention)
	}
	if c.TTL != 0 {
		p.ExpirationPolicy = &pubsubpb.ExpirationPolicy{Ttl: durpb(c.TTL)}
	}
	return p
}

func (r *Runner) dels(h []int) []*Del {
	var out []*Del
	for _, i := range h {
		if i >= 0 && i < len(r.M.Rcv) {
			out = append(out, r.M.Rcv[i])
		}
	}
	return out
}

func ackIDs(ds []*Del, raw []string) []string {
	var out []string
	for _, d := range ds {
		out = append(out, d.AckID)
	}
	return append(out, raw...)
}

func uuids(ids []string) []uuid.UUID {
	var out []uuid.UUID
	for _, s := range ids {
		if u, err := uuid.Parse(s); err == nil {
			out = append(out, u)
		}
	}
	return out
}

func pullTrace(ds []*Del) []string {
	var out []string
	for _, d := range ds {
		out = append(out, fmt.Sprintf("#%d@%d", d.Msg.Idx, d.N))
	}
	sort.Strings(out)
	return out
}

// Step executes one operation. It returns false when the case must stop
// (violation or divergence).
func (r *Runner) Step(op Op) bool {
	r.step = len(r.Ops)
	r.Ops = append(r.Ops, op)
	m, s, ctx := r.M, r.S, r.Ctx
	now := sut.Now()
	te := TraceEntry{Op: r.step, Kind: op.K}
	m.C["op/"+op.K]++
	switch op.K {
	case OpAdvance:
		sut.Advance(time.Duration(op.D))

	case OpCreateTopic:
		_, err := s.Pub.CreateTopic(ctx, &pubsubpb.Topic{Name: TopicName(op.T)})
		te.Target, te.Code = op.T, status.Code(err).String()
		r.expect(op, m.CreateTopic(op.T), err)

	case OpDeleteTopic:
		_, err := s.Pub.DeleteTopic(ctx, &pubsubpb.DeleteTopicRequest{Topic: TopicName(op.T)})
		te.Target, te.Code = op.T, status.Code(err).String()
		r.expect(op, m.DeleteTopic(op.T), err)

	case OpCreateSub:
		_, err := s.Sub.CreateSubscription(ctx, SubPB(op.S, op.T, *op.Cfg))
		te.Target, te.Code = op.S, status.Code(err).String()
		r.expect(op, m.CreateSub(op.S, op.T, *op.Cfg, now), err)

	case OpDeleteSub:
		_, err := s.Sub.DeleteSubscription(ctx, &pubsubpb.DeleteSubscriptionRequest{Subscription: SubName(op.S)})
		te.Target, te.Code = op.S, status.Code(err).String()
		r.expect(op, m.DeleteSub(op.S), err)

	case OpUpdateSub:
		topic := ""
		if ms := m.Subs[op.S]; ms != nil {
			topic = ms.Topic.Name
		}
		_, err := s.Sub.UpdateSubscription(ctx, &pubsubpb.UpdateSubscriptionRequest{Subscription: SubPB(op.S, topic, *op.Cfg), UpdateMask: &fieldmaskpb.FieldMask{Paths: op.Mask}})
		te.Target, te.Code = op.S, status.Code(err).String()
		r.expect(op, m.UpdateSub(op.S, *op.Cfg, op.Mask, now), err)

	case OpPublish:
		req := &pubsubpb.PublishRequest{Topic: TopicName(op.T)}
		for _, ms := range op.Msgs {
			req.Messages = append(req.Messages, &pubsubpb.PubsubMessage{Data: []byte(ms.Data), Attributes: ms.Attrs, OrderingKey: ms.Key})
		}
		resp, err := s.Pub.Publish(ctx, req)
		te.Target, te.Code = op.T, status.Code(err).String()
		if r.expect(op, m.ExpectPublish(op.T, op.Msgs), err) {
			if len(resp.MessageIds) != len(op.Msgs) {
				r.report([]Viol{{Prop: "C01", Rule: "publish-ids", Detail: fmt.Sprintf("step %d Publish of %d messages returned %d ids", r.step, len(op.Msgs), len(resp.MessageIds))}})
				return false
			}
			m.Publish(op.T, op.Msgs, resp.MessageIds, now)
			te.N = len(resp.MessageIds)
		}

	case OpPull:
		resp, err := s.Sub.Pull(ctx, &pubsubpb.PullRequest{Subscription: SubName(op.S), MaxMessages: int32(op.Max), ReturnImmediately: true})
		te.Target, te.Code = op.S, status.Code(err).String()
		want := codes.OK
		if m.LiveSub(op.S) == nil {
			want = codes.NotFound
		}
		if r.expect(op, want, err) {
			res, viols := m.Pull(op.S, op.Max, now, resp.ReceivedMessages)
			te.Pull, te.N = pullTrace(res.Returned), len(resp.ReceivedMessages)
			switch {
			case res.Uncertain:
				te.Info = "nondet" // also when truncated: even the size may differ
			case res.Truncated:
				te.Info = "truncated"
			}
			if r.PruneRewindAt < 0 && m.C["limbo-by-prune-then-rewind"] > 0 {
				r.PruneRewindAt = r.step
			}
			r.report(viols)
		}

	case OpAck:
		ds := r.dels(op.H)
		as := op.As
		if as == "" {
			as = op.S
		}
		_, err := s.Sub.Acknowledge(ctx, &pubsubpb.AcknowledgeRequest{Subscription: SubName(as), AckIds: ackIDs(ds, op.Raw)})
		te.Target, te.Code = as, status.Code(err).String()
		if status.Code(err) != codes.OK {
			r.report([]Viol{{Prop: "C03", Rule: "ack-status", Detail: fmt.Sprintf("step %d Acknowledge(%s, %d well-formed ids) failed: %v", r.step, as, len(ds)+len(op.Raw), err)}})
		} else {
			m.Ack(as, ds, now)
		}

	case OpModAck:
		ds := r.dels(op.H)
		as := op.As
		if as == "" {
			as = op.S
		}
		_, err := s.Sub.ModifyAckDeadline(ctx, &pubsubpb.ModifyAckDeadlineRequest{Subscription: SubName(as), AckIds: ackIDs(ds, op.Raw), AckDeadlineSeconds: int32(op.Secs)})
		te.Target, te.Code = as, status.Code(err).String()
		if status.Code(err) != codes.OK {
			r.report([]Viol{{Prop: "C03", Rule: "modack-status", Detail: fmt.Sprintf("step %d ModifyAckDeadline(%s) failed: %v", r.step, as, err)}})
		} else {
			m.ModAck(ds, op.Secs, now)
		}

	case OpNack:
		ds := r.dels(op.H)
		err := actions.VerifAcksNacks(ctx, s.Client, nil, uuids(ackIDs(ds, op.Raw)))
		te.Code = status.Code(err).String()
		if err != nil {
			r.report([]Viol{{Prop: "C03", Rule: "nack-status", Detail: fmt.Sprintf("step %d stream nack failed: %v", r.step, err)}})
		} else {
			m.Nack(ds, now)
		}

	case OpStreamAck:
		ds := r.dels(op.H)
		err := actions.VerifAcksNacks(ctx, s.Client, uuids(ackIDs(ds, op.Raw)), nil)
		te.Code = status.Code(err).String()
		if err != nil {
			r.report([]Viol{{Prop: "C03", Rule: "ack-status", Detail: fmt.Sprintf("step %d stream ack failed: %v", r.step, err)}})
		} else {
			for _, d := range ds {
				m.Ack(d.Sub.Name, []*Del{d}, now)
			}
		}

	case OpStream:
		// a real StreamingPull session: the initial request carries acks (H), an
		// optional second request more acks (H2); whatever the stream sends
		// until it has been quiet for a moment is applied like a pull response
		// (must-not rules only); then the client half-closes.
		want := codes.OK
		if m.LiveSub(op.S) == nil {
			want = codes.NotFound
		}
		acks1, acks2 := r.dels(op.H), r.dels(op.H2)
		rcv, err := r.streamSession(SubName(op.S), ackIDs(acks1, nil), ackIDs(acks2, nil))
		te.Target, te.Code = op.S, status.Code(err).String()
		if status.Code(err) != want {
			if want == codes.OK {
				r.report([]Viol{{Prop: "C03", Rule: "stream-status", Detail: fmt.Sprintf("step %d StreamingPull(%s) with %d+%d acks ended with %v", r.step, op.S, len(acks1), len(acks2), err)}})
			} else {
				r.expect(op, want, err)
			}
			break
		}
		if want == codes.OK {
			m.Ack(op.S, acks1, now)
			m.Ack(op.S, acks2, now)
			m.Session = true
			res, viols := m.Pull(op.S, 1<<30, now, rcv)
			m.Session = false
			te.Pull, te.N, te.Info = pullTrace(res.Returned), len(rcv), "nondet"
			r.report(viols)
		}

	case OpSeekTime:
		t := sut.Epoch.Add(time.Duration(op.At))
		_, err := s.Sub.Seek(ctx, &pubsubpb.SeekRequest{Subscription: SubName(op.S), Target: &pubsubpb.SeekRequest_Time{Time: timestamppb.New(t)}})
		te.Target, te.Code = op.S, status.Code(err).String()
		want := codes.OK
		if m.LiveSub(op.S) == nil {
			want = codes.NotFound
		}
		if r.expect(op, want, err) {
			m.SeekTime(op.S, t, now)
			if r.PruneRewindAt < 0 && m.C["limbo-by-prune-then-rewind"] > 0 {
				r.PruneRewindAt = r.step
			}
		}

	case OpSeekSnap:
		_, err := s.Sub.Seek(ctx, &pubsubpb.SeekRequest{Subscription: SubName(op.S), Target: &pubsubpb.SeekRequest_Snapshot{Snapshot: SnapName(op.N)}})
		te.Target, te.Code = op.S, status.Code(err).String()
		if r.expect(op, m.ExpectSeekSnap(op.S, op.N), err) {
			m.SeekSnap(op.S, op.N, now)
			if r.PruneRewindAt < 0 && m.C["limbo-by-prune-then-rewind"] > 0 {
				r.PruneRewindAt = r.step
			}
		}

	case OpSnapshot:
		_, err := s.Sub.CreateSnapshot(ctx, &pubsubpb.CreateSnapshotRequest{Name: SnapName(op.N), Subscription: SubName(op.S)})
		te.Target, te.Code = op.N, status.Code(err).String()
		r.expect(op, m.Snapshot(op.N, op.S, now), err)

	case OpDelSnapshot:
		_, err := s.Sub.DeleteSnapshot(ctx, &pubsubpb.DeleteSnapshotRequest{Snapshot: SnapName(op.N)})
		te.Target, te.Code = op.N, status.Code(err).String()
		want := codes.OK
		if m.Snaps[op.N] == nil {
			want = codes.NotFound
		}
		if r.expect(op, want, err) {
			delete(m.Snaps, op.N)
		}

	case OpJob:
		n, err := RunJob(ctx, s, op.Job, time.Duration(op.D), op.Batch)
		if err != nil {
			r.JobErrs = append(r.JobErrs, fmt.Sprintf("step %d job %s: %v", r.step, op.Job, err))
		}
		m.C["job-deleted"] += n
		m.Job(op.Job, time.Duration(op.D), now)
		return r.Viol == nil && r.Diverged == "" // jobs are not part of the client-visible trace

	case OpSweep:
		a := actions.NewDeadLetterDeliveries(actions.DeadLetterDeliveriesParams{MaxDeliveries: op.Batch})
		if err := s.Client.DoCtxTx(ctx, nil, a.Execute); err != nil {
			r.JobErrs = append(r.JobErrs, fmt.Sprintf("step %d sweep: %v", r.step, err))
		}
		m.Sweep(now, op.Batch)
		return r.Viol == nil && r.Diverged == ""

	case OpExpireSubs:
		must, mustNot, may := m.ExpireCandidates(now)
		a := actions.NewDeleteExpiredSubscriptions(actions.PruneCommonParams{MaxDelete: op.Batch})
		if err := s.Client.DoCtxTx(ctx, nil, a.Execute); err != nil {
			r.JobErrs = append(r.JobErrs, fmt.Sprintf("step %d expire: %v", r.step, err))
		}
		// learn the outcome the way a client would: GetSubscription
		gone := 0
		for _, ms := range m.LiveSubs() {
			_, err := s.Sub.GetSubscription(ctx, &pubsubpb.GetSubscriptionRequest{Subscription: SubName(ms.Name)})
			if status.Code(err) == codes.NotFound {
				gone++
				for _, x := range mustNot {
					if x == ms {
						r.report([]Viol{{Prop: "C14", Rule: "expired-early", Detail: fmt.Sprintf("step %d expiry sweep at +%v removed subscription %s whose TTL runs until +%v (last activity + TTL)", r.step, now.Sub(sut.Epoch), ms.Name, ms.Expires.Sub(sut.Epoch))}})
					}
				}
				ms.Live = false
				m.C["subs-expired"]++
			} else if err == nil {
				for _, x := range must {
					if x == ms && len(must)+len(may) <= op.Batch {
						r.report([]Viol{{Prop: "C14", Rule: "not-expired", Detail: fmt.Sprintf("step %d expiry sweep at +%v (batch %d) left subscription %s alive although its TTL ended at +%v", r.step, now.Sub(sut.Epoch), op.Batch, ms.Name, ms.Expires.Sub(sut.Epoch))}})
					}
				}
			}
		}
		if len(must) > op.Batch && gone == 0 {
			r.report([]Viol{{Prop: "C14", Rule: "not-expired", Detail: fmt.Sprintf("step %d expiry sweep removed nothing although %d subscriptions are past their TTL", r.step, len(must))}})
		}
		return r.Viol == nil && r.Diverged == ""

	case OpSetDelay:
		code := s.SetDelay(SubName(op.S), time.Duration(op.D))
		te.Target, te.Code = op.S, fmt.Sprint(code)
		if ms := m.LiveSub(op.S); ms != nil {
			if code/100 != 2 {
				r.Diverged = fmt.Sprintf("step %d SetDelay(%s) -> HTTP %d", r.step, op.S, code)
			} else {
				ms.Delay = time.Duration(op.D)
			}
		}

	case OpGetSub:
		_, err := s.Sub.GetSubscription(ctx, &pubsubpb.GetSubscriptionRequest{Subscription: SubName(op.S)})
		te.Target, te.Code = op.S, status.Code(err).String()
		want := codes.OK
		if m.LiveSub(op.S) == nil {
			want = codes.NotFound
		}
		r.expect(op, want, err)

	case OpGetTopic:
		_, err := s.Pub.GetTopic(ctx, &pubsubpb.GetTopicRequest{Topic: TopicName(op.T)})
		te.Target, te.Code = op.T, status.Code(err).String()
		want := codes.OK
		if m.LiveTopic(op.T) == nil {
			want = codes.NotFound
		}
		r.expect(op, want, err)

	default:
		r.Diverged = "unknown op " + op.K
	}
	if p := s.TakePanics(); len(p) > 0 && r.Viol == nil {
		r.Viol = &Viol{Prop: "C16", Rule: "handler-panic", Detail: fmt.Sprintf("step %d %s: handler panicked: %s", r.step, op, p[0].Value)}
		if !r.armed("C16") {
			r.Diverged = r.Viol.Detail
			r.Viol = nil
		}
	}
	if op.K != OpAdvance {
		r.Trace = append(r.Trace, te)
	}
	return r.Viol == nil && r.Diverged == ""
}

// RunJob runs one background maintenance job once, the way the service does
// (one transaction around action.Execute).
func RunJob(ctx context.Context, s *sut.SUT, kind string, minAge time.Duration, batch int) (int, error) {
	name := "prune-" + kind
	if kind == "expired-subscriptions" {
		name = "delete-expired-subscriptions"
	}
	if minAge <= 0 {
		// the service's ApplyDefaults reads 0 as "one hour"; the virtual clock
		// ticks 1 us per read, so 1 ns is the same cutoff as 0
		minAge = time.Nanosecond
	}
	if batch <= 0 {
		batch = 100
	}
	key := fmt.Sprintf("%s/%d/%d", name, minAge, batch)
	run, ok := s.JobRunner(key)
	if !ok {
		var err error
		run, err = services.VerifPruneRunner(ctx, name, s.Client, minAge, batch)
		if err != nil {
			return 0, err
		}
		s.SetJobRunner(key, run)
	}
	n, err := run(ctx)
	if err != nil {
		return 0, err
	}
	return n, nil
}

// Drain pulls everything that is owed, acknowledging what arrives and
// advancing past every lease, until the model owes nothing (or the round
// bound is hit). It returns false if a violation was found.
func (r *Runner) Drain(maxRounds int) bool {
	idle := 0
	lastStuck := ""
	for round := 0; round < maxRounds; round++ {
		now := sut.Now()
		owed := r.M.Owed(now)
		if len(owed) == 0 {
			r.M.C["drained"]++
			return true
		}
		progress := false
		for _, s := range r.M.LiveSubs() {
			before := len(r.M.Rcv)
			if !r.Step(Op{K: OpPull, S: s.Name, Max: 1000, Note: "drain"}) {
				return false
			}
			if n := len(r.M.Rcv) - before; n > 0 {
				progress = true
				h := make([]int, n)
				for i := range h {
					h[i] = before + i
				}
				if !r.Step(Op{K: OpAck, S: s.Name, H: h, Note: "drain"}) {
					return false
				}
			}
		}
		if !r.Step(Op{K: OpSweep, Batch: 1000, Note: "drain"}) {
			return false
		}
		if progress {
			idle = 0
			continue
		}
		// nothing arrived: move past the earliest retry deadline that is still ahead
		now = sut.Now()
		var next time.Time
		for _, d := range r.M.Owed(now) {
			t := d.Hi.Add(2 * Eps)
			if t.After(now) && (next.IsZero() || t.Before(next)) {
				next = t
			}
		}
		if next.IsZero() {
			// owed, due, and not delivered: the must-missing rule has fired unless blocked deliveries remain
			stuck := r.M.Owed(now)
			if len(stuck) == 0 {
				continue
			}
			// a pull may just have retired (dead-lettered) a predecessor, or a
			// predecessor may be within the margin of its retention end: what that
			// unblocks is only visible to a later pull
			// (and the count starts again whenever what holds them back has
			// changed, e.g. the last pull retired a predecessor)
			key := ""
			for _, d := range stuck {
				b, by := r.M.blocked(d, now)
				key += fmt.Sprintf("%d:%d:%p;", d.Seq, b, by)
			}
			if key != lastStuck {
				lastStuck, idle = key, 0
			}
			if idle++; idle < 4 {
				if !r.Step(Op{K: OpAdvance, D: int64(3 * Eps), Note: "drain"}) {
					return false
				}
				continue
			}
			var parts []string
			for _, d := range stuck {
				b, by := r.M.blocked(d, now)
				if b != -1 {
					continue // blocked (possibly behind an uncertain delivery) or uncertain: not a verdict on this one
				}
				parts = append(parts, fmt.Sprintf("#%d on %s (n=%d, blocked=%d by %v)", d.Msg.Idx, d.Sub.Name, d.N, b, by != nil))
			}
			if len(parts) == 0 {
				r.M.C["drain-uncertain"]++
				return true
			}
			r.report([]Viol{{Prop: "C01", Rule: "drain-stuck", Detail: fmt.Sprintf("drain: %d deliveries are owed and due but are never delivered: %s", len(stuck), strings.Join(parts, ", "))}})
			return r.Viol == nil
		}
		idle = 0
		if !r.Step(Op{K: OpAdvance, D: int64(next.Sub(now)), Note: "drain"}) {
			return false
		}
	}
	r.M.C["drain-bound-hit"]++
	return true
}

// streamSession runs one StreamingPull session and returns what was received.
func (r *Runner) streamSession(sub string, acks1, acks2 []string) ([]*pubsubpb.ReceivedMessage, error) {
	ctx, cancel := context.WithTimeout(r.Ctx, 10*time.Second)
	defer cancel()
	st, err := r.S.Sub.StreamingPull(ctx)
	if err != nil {
		return nil, err
	}
	if err := st.Send(&pubsubpb.StreamingPullRequest{Subscription: sub, StreamAckDeadlineSeconds: 10, MaxOutstandingMessages: 1000, MaxOutstandingBytes: 1 << 24, AckIds: acks1}); err != nil {
		return nil, err
	}
	if len(acks2) > 0 {
		if err := st.Send(&pubsubpb.StreamingPullRequest{AckIds: acks2}); err != nil {
			return nil, err
		}
	}
	type item struct {
		msgs []*pubsubpb.ReceivedMessage
		err  error
	}
	ch := make(chan item, 64)
	go func() {
		for {
			resp, err := st.Recv()
			if err != nil {
				ch <- item{err: err}
				return
			}
			ch <- item{msgs: resp.ReceivedMessages}
		}
	}()
	var got []*pubsubpb.ReceivedMessage
	quiet := time.NewTimer(40 * time.Millisecond)
	closed := false
	for {
		select {
		case it := <-ch:
			if it.err != nil {
				r.S.WaitStreamsIdle(5 * time.Second)
				if closed && (it.err == io.EOF || status.Code(it.err) == codes.OK || status.Code(it.err) == codes.Canceled) {
					return got, nil
				}
				if it.err == io.EOF {
					return got, nil
				}
				return got, it.err
			}
			got = append(got, it.msgs...)
			if !quiet.Stop() {
				select {
				case <-quiet.C:
				default:
				}
			}
			quiet.Reset(40 * time.Millisecond)
		case <-quiet.C:
			if !closed {
				closed = true
				_ = st.CloseSend()
				quiet.Reset(5 * time.Second)
			} else {
				cancel()
				r.S.WaitStreamsIdle(5 * time.Second)
				return got, fmt.Errorf("stream did not end after the client half-closed")
			}
		}
	}
}
