package hist

import (
	"fmt"
	"sort"
	"time"

	"pgregory.net/rapid"

	"verif/sut"
)

// Profile steers generation for one property: operation weights and the
// configuration domain. Everything random is drawn from rapid.
type Profile struct {
	Name      string
	MinOps    int
	MaxOps    int
	Topics    int
	Subs      int
	W         map[string]int
	Ordered   int      // percent of subscriptions with ordering enabled
	Keys      []string // ordering keys ("" = un-keyed)
	Filters   []string // filter texts ("" = none)
	DLPercent int      // percent of subscriptions with a dead-letter policy
	Attempts  []int    // max delivery attempts domain (0 = default 5)
	Retry     int      // percent with a retry policy
	MinBs     []time.Duration
	MaxBs     []time.Duration
	Rets      []time.Duration // retention domain (0 = default)
	TTLs      []time.Duration
	Delays    []time.Duration
	RichData  bool
	Foreign   bool // acks / modacks naming other subscriptions' ids, unknown ids
	NoSelfDL  bool
	// PruneBeforeSeek=false keeps "completed-deliveries" prune jobs out of
	// histories (they legitimately limit what a later rewinding seek revives).
	AllowPruneCompleted bool
	// TargetExpiry: deadline-targeted advances also aim at retention ends and
	// subscription TTLs (otherwise only at lease / delay deadlines)
	TargetExpiry bool
	// JobKinds / JobAges override the prune-job domain
	JobKinds []string
	JobAges  []time.Duration
	// AdvScales: random (not deadline-targeted) clock advances
	AdvScales []time.Duration
	Prelude   func(t *rapid.T, g *Gen)
}

type Gen struct {
	P *Profile
	R *Runner
	T *rapid.T
	// queue: the rest of a macro (a short fixed sequence that sets up a state
	// single random draws rarely reach); drained before anything else is drawn
	queue []Op
}

// MacroSnapRoundtrip (a weight key in Profile.W, not an operation): snapshot a
// subscription, ack some of what it holds, let time pass, seek back to the
// snapshot.
const MacroSnapRoundtrip = "Macro/snapshot-ack-wait-seek"

// MacroExhaustedExpires: a delivery that has used up its dead-letter attempts
// is left alone until its retention is over, then the sweep runs and the
// dead-letter topic's subscriptions are pulled ("never forwarded after it
// expired").
const MacroExhaustedExpires = "Macro/exhausted-then-expired-then-sweep"

// MacroOrphanSnapshot: a topic is deleted while a subscription on it stays
// live; that subscription is snapshotted AFTERWARDS (DeleteTopic only removes
// the snapshots that exist at that moment), time passes, the deleted-topics
// job runs (the topic row must stay, a live subscription hangs on it, and so
// must the snapshot) and the subscription seeks to the snapshot.
const MacroOrphanSnapshot = "Macro/delete-topic-snapshot-orphan-prune-seek"

// MacroDoubleSeek: everything a subscription holds is acknowledged, more than
// half of its retention passes, a seek to the beginning revives it (fresh
// retention from the seek), it is pulled and acknowledged again, more than half
// a retention passes again - the messages are now older than one retention
// counted from PUBLISH but still inside the retention the first seek gave them
// - and a second seek to the beginning must revive them once more.
const MacroDoubleSeek = "Macro/ack-wait-seek-ack-wait-seek"

// MacroPrunePredecessor: two same-key messages on an ordered subscription, the
// first is pulled and acknowledged, the completed-deliveries job runs before
// the second has been delivered (the second row references the first), then
// the subscription is pulled: the successor must still be there.
const MacroPrunePredecessor = "Macro/ordered-pair-ack-first-prune-pull"

// lazyAckOut is a queue-only pseudo operation: when it is popped it becomes an
// Ack of whatever is outstanding on the subscription at THAT moment (handles
// of a pull that is still ahead in the queue cannot be named in advance).
const lazyAckOut = "Lazy/ack-outstanding"

func names(prefix string, n int) []string {
	out := make([]string, n)
	for i := range out {
		out[i] = fmt.Sprintf("%s%d", prefix, i)
	}
	return out
}

func pickDur(t *rapid.T, ds []time.Duration, label string) time.Duration {
	if len(ds) == 0 {
		return 0
	}
	return rapid.SampledFrom(ds).Draw(t, label)
}

func pct(t *rapid.T, p int, label string) bool {
	if p <= 0 {
		return false
	}
	if p >= 100 {
		return true
	}
	return rapid.IntRange(0, 99).Draw(t, label) < p
}

func (g *Gen) liveTopics() []string {
	var out []string
	for n, tp := range g.R.M.Topics {
		if tp.Live {
			out = append(out, n)
		}
	}
	sort.Strings(out)
	return out
}

func (g *Gen) liveSubs() []string {
	var out []string
	for _, s := range g.R.M.LiveSubs() {
		out = append(out, s.Name)
	}
	sort.Strings(out)
	return out
}

// GenCfg draws a configuration for a subscription of the given topic.
func (g *Gen) GenCfg(topic string) SubCfg {
	t, p := g.T, g.P
	c := SubCfg{}
	if len(p.Filters) > 0 {
		c.Filter = rapid.SampledFrom(p.Filters).Draw(t, "filter")
	}
	c.Ordered = pct(t, p.Ordered, "ordered")
	if pct(t, p.Retry, "retry") {
		c.HasRetry = true
		c.MinB = int64(pickDur(t, p.MinBs, "minb"))
		c.MaxB = int64(pickDur(t, p.MaxBs, "maxb"))
	}
	if pct(t, p.DLPercent, "dl") {
		lt := g.liveTopics()
		if len(lt) > 0 {
			c.DLTopic = rapid.SampledFrom(lt).Draw(t, "dltopic")
			if len(p.Attempts) > 0 {
				c.MaxAttempts = rapid.SampledFrom(p.Attempts).Draw(t, "attempts")
			}
			if p.NoSelfDL && c.DLTopic == topic {
				// the self-loop topology (dead-letter topic == own topic) is excluded
				// by construction: there the two clauses of C06 contradict each other
				g.R.M.C["excluded/self-loop-dl"]++
				c.DLTopic, c.MaxAttempts = "", 0
			}
		}
	}
	c.Retention = int64(pickDur(t, p.Rets, "ret"))
	c.TTL = int64(pickDur(t, p.TTLs, "ttl"))
	return c
}

var attrNames = []string{"x", "y", "k"}
var attrVals = []string{"", "x", "xy", "1"}

// DefaultFilters pairs with the attribute vocabulary above.
var DefaultFilters = []string{"", "", `attributes:x`, `attributes.x="xy"`, `NOT attributes:y`, `hasPrefix(attributes.x,"x") OR attributes.k!="1"`, `attributes:x AND -attributes:y`}

var richData = []string{
	`{"a":1}`, `[]`, `"s"`, `null`, `true`, `0`, `-0.0`, `1e400`, `12345678901234567890123`, `{"n":9007199254740993}`,
	`{"html":"<script>&amp;</script>"}`, `{"u":" é😀"}`, ` { "ws" : [ 1 , 2 ] } `, `{"nested":{"a":[{"b":null},[[]]]}}`,
	`"\"quoted\\\""`, `{"":""}`, `[1.0,1.00,1e0]`, `{"k":"` + "é€😀" + `"}`,
}

func (g *Gen) genMsg(i int) MsgSpec {
	t := g.T
	ms := MsgSpec{Data: fmt.Sprintf(`{"i":%d}`, len(g.R.M.Msgs)+i)}
	if g.P.RichData {
		switch rapid.IntRange(0, 3).Draw(t, "datakind") {
		case 0:
			ms.Data = rapid.SampledFrom(richData).Draw(t, "data")
		case 1:
			ms.Data = fmt.Sprintf(`{"s":%q,"n":%d}`, rapid.StringN(0, 20, 60).Draw(t, "str"), rapid.Int64().Draw(t, "num"))
		}
	}
	n := rapid.IntRange(0, 3).Draw(t, "nattr")
	if n > 0 {
		ms.Attrs = map[string]string{}
		for j := 0; j < n; j++ {
			ms.Attrs[rapid.SampledFrom(attrNames).Draw(t, "an")] = rapid.SampledFrom(attrVals).Draw(t, "av")
		}
	}
	if len(g.P.Keys) > 0 {
		ms.Key = rapid.SampledFrom(g.P.Keys).Draw(t, "key")
	}
	return ms
}

// handles of deliveries received on sub (or all), filtered.
func (g *Gen) handles(sub string, want func(*Del) bool) []int {
	var out []int
	seen := map[*Del]bool{}
	for i := len(g.R.M.Rcv) - 1; i >= 0; i-- { // latest handle of each delivery
		d := g.R.M.Rcv[i]
		if seen[d] {
			continue
		}
		seen[d] = true
		if (sub == "" || d.Sub.Name == sub && d.Sub.Live) && (want == nil || want(d)) {
			out = append(out, i)
		}
	}
	sort.Ints(out)
	return out
}

func (g *Gen) subset(hs []int, label string) []int {
	if len(hs) == 0 {
		return nil
	}
	t := g.T
	switch rapid.IntRange(0, 3).Draw(t, label+"-mode") {
	case 0:
		return hs
	case 1:
		return []int{rapid.SampledFrom(hs).Draw(t, label+"-one")}
	default:
		var out []int
		for _, h := range hs {
			if rapid.Bool().Draw(t, label+"-in") {
				out = append(out, h)
			}
		}
		if len(out) == 0 {
			out = []int{hs[0]}
		}
		// acks "in random order": order of ids inside a request is irrelevant to
		// the API, order across requests comes from generating several ops
		return out
	}
}

func isOut(d *Del) bool { return d.State == Out }

var advScales = []time.Duration{time.Millisecond, 100 * time.Millisecond, 100 * time.Millisecond, time.Second, time.Second, 5 * time.Second, 11500 * time.Millisecond, 15 * time.Second,
	time.Minute, 11 * time.Minute, time.Hour, 25 * time.Hour, 8 * 24 * time.Hour}

func (g *Gen) genAdvance() Op {
	t := g.T
	now := sut.Now()
	var targets []time.Time
	for _, s := range g.R.M.LiveSubs() {
		for _, d := range s.Dels {
			if d.State != Out {
				continue
			}
			xs := []time.Time{d.Lo.Add(-3 * Eps), d.Hi.Add(3 * Eps)}
			if !d.Probe.IsZero() {
				xs = append(xs, d.Probe.Add(3*Eps))
			}
			if g.P.TargetExpiry {
				xs = append(xs, d.Exp.Add(-3*Eps), d.Exp.Add(3*Eps))
			}
			for _, x := range xs {
				if x.After(now) {
					targets = append(targets, x)
				}
			}
		}
		if g.P.TargetExpiry {
			for _, x := range []time.Time{s.Expires.Add(-3 * Eps), s.Expires.Add(3 * Eps)} {
				if x.After(now) {
					targets = append(targets, x)
				}
			}
		}
	}
	sort.Slice(targets, func(i, j int) bool { return targets[i].Before(targets[j]) })
	scales := advScales
	if len(g.P.AdvScales) > 0 {
		scales = g.P.AdvScales
	}
	if len(targets) > 0 && rapid.IntRange(0, 5).Draw(t, "adv-mode") != 0 {
		// prefer the nearest deadlines
		i := rapid.IntRange(0, min(len(targets)-1, 5)).Draw(t, "adv-target")
		return Op{K: OpAdvance, D: int64(targets[i].Sub(now))}
	}
	return Op{K: OpAdvance, D: int64(rapid.SampledFrom(scales).Draw(t, "adv-scale"))}
}

func newUUIDish(t *rapid.T) string {
	b := rapid.SliceOfN(rapid.Byte(), 16, 16).Draw(t, "uuid")
	b[6] = (b[6] & 0x0f) | 0x40
	b[8] = (b[8] & 0x3f) | 0x80
	return fmt.Sprintf("%x-%x-%x-%x-%x", b[0:4], b[4:6], b[6:8], b[8:10], b[10:16])
}

// Next draws the next operation from the current model state.
func (g *Gen) Next() Op {
	for len(g.queue) > 0 {
		op := g.queue[0]
		g.queue = g.queue[1:]
		if op.K == lazyAckOut {
			hs := g.handles(op.S, isOut)
			if len(hs) == 0 {
				continue
			}
			return Op{K: OpAck, S: op.S, H: hs}
		}
		return op
	}
	t, p, m := g.T, g.P, g.R.M
	var kinds []string
	for k, w := range p.W {
		for i := 0; i < w; i++ {
			kinds = append(kinds, k)
		}
	}
	sort.Strings(kinds)
	for tries := 0; tries < 20; tries++ {
		k := rapid.SampledFrom(kinds).Draw(t, "op")
		lt, ls := g.liveTopics(), g.liveSubs()
		switch k {
		case OpAdvance:
			return g.genAdvance()
		case OpCreateTopic:
			return Op{K: k, T: rapid.SampledFrom(names("t", p.Topics)).Draw(t, "topic")}
		case OpDeleteTopic:
			if len(lt) == 0 {
				continue
			}
			return Op{K: k, T: rapid.SampledFrom(lt).Draw(t, "topic")}
		case OpCreateSub:
			if len(lt) == 0 {
				continue
			}
			name := rapid.SampledFrom(names("s", p.Subs)).Draw(t, "sub")
			topic := rapid.SampledFrom(lt).Draw(t, "topic")
			cfg := g.GenCfg(topic)
			return Op{K: k, S: name, T: topic, Cfg: &cfg}
		case OpDeleteSub:
			if len(ls) == 0 {
				continue
			}
			return Op{K: k, S: rapid.SampledFrom(ls).Draw(t, "sub")}
		case OpUpdateSub:
			if len(ls) == 0 {
				continue
			}
			name := rapid.SampledFrom(ls).Draw(t, "sub")
			cfg := g.GenCfg(m.LiveSub(name).Topic.Name)
			paths := []string{"filter", "retry_policy", "dead_letter_policy", "message_retention_duration", "expiration_policy"}
			var mask []string
			for _, pa := range paths {
				if rapid.IntRange(0, 3).Draw(t, "mask-"+pa) == 0 {
					mask = append(mask, pa)
				}
			}
			if len(mask) == 0 {
				mask = []string{rapid.SampledFrom(paths).Draw(t, "mask1")}
			}
			return Op{K: k, S: name, Cfg: &cfg, Mask: mask}
		case OpPublish:
			if len(lt) == 0 {
				continue
			}
			n := rapid.IntRange(1, 4).Draw(t, "nmsg")
			op := Op{K: k, T: rapid.SampledFrom(lt).Draw(t, "topic")}
			for i := 0; i < n; i++ {
				op.Msgs = append(op.Msgs, g.genMsg(i))
			}
			return op
		case OpPull:
			if len(ls) == 0 {
				continue
			}
			return Op{K: k, S: rapid.SampledFrom(ls).Draw(t, "sub"), Max: rapid.SampledFrom([]int{1, 2, 3, 5, 10, 100, 1000, 1000}).Draw(t, "max")}
		case OpAck, OpStreamAck:
			if len(ls) == 0 {
				continue
			}
			s := rapid.SampledFrom(ls).Draw(t, "sub")
			mode := rapid.IntRange(0, 9).Draw(t, "ackmode")
			op := Op{K: k, S: s}
			switch {
			case mode <= 5:
				op.H = g.subset(g.handles(s, isOut), "ack")
			case mode == 6: // duplicates / stale
				op.H = g.subset(g.handles(s, nil), "ack")
			case mode == 7 && p.Foreign: // foreign ids under this name, mixed with valid ones
				op.H = append(g.subset(g.handles("", nil), "ackf"), g.subset(g.handles(s, isOut), "ack")...)
			case mode == 8 && p.Foreign:
				op.H = g.subset(g.handles(s, isOut), "ack")
				op.Raw = []string{newUUIDish(t)}
			default:
				op.H = g.subset(g.handles(s, isOut), "ack")
			}
			if len(op.H) == 0 && len(op.Raw) == 0 {
				continue
			}
			return op
		case OpStream:
			if len(ls) == 0 {
				continue
			}
			{
				s := rapid.SampledFrom(ls).Draw(t, "sub")
				now := sut.Now()
				// only acks of deliveries that are certainly still leased: the stream
				// cannot race the ack by redelivering them first
				leased := g.handles(s, func(d *Del) bool { return d.State == Out && !d.Fuzzy && now.Before(d.Lo.Add(-Eps)) })
				op := Op{K: k, S: s}
				switch rapid.IntRange(0, 3).Draw(t, "streammode") {
				case 0:
					op.H = g.subset(leased, "sack1")
				case 1:
					op.H2 = g.subset(leased, "sack2")
				case 2:
					hs := g.subset(leased, "sack")
					for i, h := range hs {
						if i%2 == 0 {
							op.H = append(op.H, h)
						} else {
							op.H2 = append(op.H2, h)
						}
					}
				}
				return op
			}
		case OpModAck:
			if len(ls) == 0 {
				continue
			}
			s := rapid.SampledFrom(ls).Draw(t, "sub")
			var hs []int
			if p.Foreign && rapid.IntRange(0, 4).Draw(t, "modack-any") == 0 {
				hs = g.subset(g.handles("", nil), "modack")
			} else if rapid.IntRange(0, 4).Draw(t, "modack-stale") == 0 {
				hs = g.subset(g.handles(s, nil), "modack")
			} else {
				hs = g.subset(g.handles(s, isOut), "modack")
			}
			if len(hs) == 0 {
				continue
			}
			return Op{K: k, S: s, H: hs, Secs: rapid.SampledFrom([]int{0, 0, 0, 1, 5, 10, 30, 60, 600, 3600}).Draw(t, "secs")}
		case OpNack:
			var hs []int
			if rapid.IntRange(0, 4).Draw(t, "nack-stale") == 0 {
				hs = g.subset(g.handles("", nil), "nack")
			} else {
				hs = g.subset(g.handles("", func(d *Del) bool { return d.State == Out && d.Sub.Live }), "nack")
			}
			if len(hs) == 0 {
				continue
			}
			return Op{K: k, H: hs}
		case OpSeekTime:
			if len(ls) == 0 {
				continue
			}
			s := rapid.SampledFrom(ls).Draw(t, "sub")
			now := sut.Now()
			var at time.Duration
			switch rapid.IntRange(0, 5).Draw(t, "seekmode") {
			case 0:
				at = -time.Hour
			case 1:
				at = now.Sub(sut.Epoch)
			case 2:
				at = now.Sub(sut.Epoch) + time.Hour
			case 3: // exactly a publish time seen in a pull
				var ex []time.Time
				for _, d := range m.LiveSub(s).Dels {
					if !d.PubExact.IsZero() {
						ex = append(ex, d.PubExact)
					}
				}
				if len(ex) == 0 {
					at = 0
				} else {
					at = rapid.SampledFrom(ex).Draw(t, "seekexact").Sub(sut.Epoch)
				}
			default: // somewhere in the past, between operations
				span := now.Sub(sut.Epoch)
				if span <= 0 {
					span = 1
				}
				at = time.Duration(rapid.Int64Range(0, int64(span)).Draw(t, "seekat"))
			}
			return Op{K: k, S: s, At: int64(at)}
		case MacroExhaustedExpires:
			var cand []*Del
			for _, sb := range m.LiveSubs() {
				if !sb.hasDL() {
					continue
				}
				for _, d := range sb.Dels {
					if d.State == Out && !d.Fuzzy && !d.ExpUnknown && d.N >= sb.Cfg.attempts() {
						cand = append(cand, d)
					}
				}
			}
			if len(cand) == 0 {
				continue
			}
			d := cand[rapid.IntRange(0, len(cand)-1).Draw(t, "macro-del")]
			wait := d.Exp.Sub(sut.Now()) + 3*Eps
			if wait <= 0 {
				continue
			}
			var q []Op
			for _, o := range m.LiveSubs() {
				if o.Topic == d.Sub.DL {
					q = append(q, Op{K: OpPull, S: o.Name, Max: 10})
				}
			}
			g.queue = append([]Op{{K: OpSweep, Batch: 1000}}, q...)
			return Op{K: OpAdvance, D: int64(wait)}
		case MacroPrunePredecessor:
			var cand []*Sub
			for _, sb := range m.LiveSubs() {
				if sb.Cfg.Ordered && sb.Topic != nil && sb.Topic.Live {
					cand = append(cand, sb)
				}
			}
			if len(cand) == 0 {
				continue
			}
			sb := cand[rapid.IntRange(0, len(cand)-1).Draw(t, "macro-sub")]
			n := len(m.Msgs)
			pub := Op{K: OpPublish, T: sb.Topic.Name, Msgs: []MsgSpec{
				{Data: fmt.Sprintf(`{"i":%d}`, n), Attrs: map[string]string{"x": "x"}, Key: "K1"},
				{Data: fmt.Sprintf(`{"i":%d}`, n+1), Attrs: map[string]string{"x": "x"}, Key: "K1"}}}
			g.queue = []Op{{K: OpPull, S: sb.Name, Max: 1000}, {K: lazyAckOut, S: sb.Name},
				{K: OpJob, Job: "completed-deliveries", D: 0, Batch: rapid.SampledFrom([]int{1, 100}).Draw(t, "batch")}, {K: OpPull, S: sb.Name, Max: 1000}}
			return pub
		case MacroDoubleSeek:
			var cand []string
			for _, sb := range m.LiveSubs() {
				if len(sb.Dels) > 0 && sb.Topic != nil && sb.Topic.Live {
					cand = append(cand, sb.Name)
				}
			}
			if len(cand) == 0 {
				continue
			}
			sname := rapid.SampledFrom(cand).Draw(t, "sub")
			ret := m.LiveSub(sname).Cfg.retention()
			w1 := ret/2 + time.Duration(rapid.Int64Range(int64(time.Second), int64(ret/3)).Draw(t, "macro-w1"))
			w2 := ret/2 + time.Duration(rapid.Int64Range(int64(time.Second), int64(ret/3)).Draw(t, "macro-w2"))
			g.queue = []Op{
				{K: OpPull, S: sname, Max: 1000}, {K: lazyAckOut, S: sname}, {K: OpAdvance, D: int64(w1)},
				{K: OpSeekTime, S: sname, At: 0}, {K: OpPull, S: sname, Max: 1000}, {K: lazyAckOut, S: sname}, {K: OpAdvance, D: int64(w2)},
				{K: OpSeekTime, S: sname, At: 0}, {K: OpPull, S: sname, Max: 1000},
			}
			return g.Next()
		case MacroOrphanSnapshot:
			if len(ls) == 0 {
				continue
			}
			var free []string
			for _, c := range names("n", 3) {
				if m.Snaps[c] == nil {
					free = append(free, c)
				}
			}
			if len(free) == 0 {
				continue
			}
			sname := rapid.SampledFrom(ls).Draw(t, "sub")
			n := rapid.SampledFrom(free).Draw(t, "snap")
			wait := rapid.SampledFrom([]time.Duration{time.Second, time.Minute, 2 * time.Hour}).Draw(t, "macro-wait")
			age := rapid.SampledFrom([]time.Duration{0, time.Second, time.Hour}).Draw(t, "minage")
			tail := []Op{{K: OpSnapshot, N: n, S: sname}, {K: OpAdvance, D: int64(wait)}, {K: OpJob, Job: "deleted-topics", D: int64(age), Batch: 100}, {K: OpSeekSnap, S: sname, N: n}, {K: OpPull, S: sname, Max: 1000}}
			tn := m.LiveSub(sname).Topic
			if tn != nil && tn.Live {
				g.queue = tail
				return Op{K: OpDeleteTopic, T: tn.Name}
			}
			g.queue = tail[1:]
			return tail[0]
		case MacroSnapRoundtrip:
			if len(ls) == 0 {
				continue
			}
			sname := rapid.SampledFrom(ls).Draw(t, "sub")
			hs := g.subset(g.handles(sname, isOut), "macro-ack")
			if len(hs) == 0 {
				continue
			}
			// a name that is free: seeking to someone else's snapshot (another
			// filter) is outside what the statement defines
			var free []string
			for _, c := range names("n", 3) {
				if m.Snaps[c] == nil {
					free = append(free, c)
				}
			}
			if len(free) == 0 {
				continue
			}
			n := rapid.SampledFrom(free).Draw(t, "snap")
			ret := m.LiveSub(sname).Cfg.retention()
			wait := rapid.SampledFrom([]time.Duration{time.Second, time.Minute, 5 * time.Minute, ret / 2, ret / 2}).Draw(t, "macro-wait")
			g.queue = []Op{{K: OpAck, S: sname, H: hs}, {K: OpAdvance, D: int64(wait)}, {K: OpSeekSnap, S: sname, N: n}}
			// afterwards every sibling on the topic is looked at: the round trip is
			// this subscription's business alone
			for _, o := range m.LiveSubs() {
				if o.Name != sname && o.Topic == m.LiveSub(sname).Topic {
					g.queue = append(g.queue, Op{K: OpPull, S: o.Name, Max: 1000})
				}
			}
			// half of the time something is acknowledged before the snapshot too
			// (out of publish order, so that the snapshot carries an acked list)
			if pre := g.subset(g.handles(sname, isOut), "macro-preack"); len(pre) > 0 && len(pre) < len(g.handles(sname, isOut)) && rapid.Bool().Draw(t, "macro-pre") {
				g.queue = append([]Op{{K: OpSnapshot, N: n, S: sname}}, g.queue...)
				return Op{K: OpAck, S: sname, H: pre}
			}
			return Op{K: OpSnapshot, N: n, S: sname}
		case OpSnapshot:
			if len(ls) == 0 {
				continue
			}
			return Op{K: k, N: rapid.SampledFrom(names("n", 3)).Draw(t, "snap"), S: rapid.SampledFrom(ls).Draw(t, "sub")}
		case OpDelSnapshot:
			if len(m.Snaps) == 0 {
				continue
			}
			return Op{K: k, N: rapid.SampledFrom(names("n", 3)).Draw(t, "snap")}
		case OpSeekSnap:
			if len(ls) == 0 || len(m.Snaps) == 0 {
				continue
			}
			var sn []string
			for n := range m.Snaps {
				sn = append(sn, n)
			}
			sort.Strings(sn)
			n := rapid.SampledFrom(sn).Draw(t, "snap")
			// same subscription, or a sibling of the same topic with the same filter
			var subs []string
			for _, s := range m.LiveSubs() {
				src := m.Snaps[n]
				if s.Topic == src.Topic && (s.Gen == src.SubG || sameFilterAs(m, src, s)) {
					subs = append(subs, s.Name)
				}
			}
			if len(subs) == 0 {
				continue
			}
			return Op{K: k, S: rapid.SampledFrom(subs).Draw(t, "sub"), N: n}
		case OpJob:
			kindsJ := JobKinds
			if !p.AllowPruneCompleted {
				kindsJ = JobKinds[1:]
			}
			if len(p.JobKinds) > 0 {
				kindsJ = p.JobKinds
			}
			ages := []time.Duration{0, time.Second, time.Hour}
			if len(p.JobAges) > 0 {
				ages = p.JobAges
			}
			return Op{K: k, Job: rapid.SampledFrom(kindsJ).Draw(t, "job"), D: int64(rapid.SampledFrom(ages).Draw(t, "minage")), Batch: rapid.SampledFrom([]int{1, 3, 100}).Draw(t, "batch")}
		case OpSweep:
			return Op{K: k, Batch: 1000}
		case OpExpireSubs:
			return Op{K: k, Batch: rapid.SampledFrom([]int{1, 100}).Draw(t, "batch")}
		case OpSetDelay:
			if len(ls) == 0 || len(p.Delays) == 0 {
				continue
			}
			return Op{K: k, S: rapid.SampledFrom(ls).Draw(t, "sub"), D: int64(pickDur(t, p.Delays, "delay"))}
		case OpGetSub:
			return Op{K: k, S: rapid.SampledFrom(names("s", p.Subs)).Draw(t, "sub")}
		case OpGetTopic:
			return Op{K: k, T: rapid.SampledFrom(names("t", p.Topics)).Draw(t, "topic")}
		}
	}
	return g.genAdvance()
}

func sameFilterAs(m *Model, src *Snap, s *Sub) bool {
	for _, o := range m.AllSubs {
		if o.Gen == src.SubG {
			return o.Cfg.Filter == s.Cfg.Filter && o.Topic == s.Topic
		}
	}
	return false
}

// Run generates and executes one history. It returns the runner (for the
// trace, counters and any violation).
func Run(t *rapid.T, s *sut.SUT, p *Profile, seed int64, armed ...string) *Runner {
	if err := s.Reset(seed, true); err != nil {
		t.Fatalf("reset: %v", err)
	}
	r := NewRunner(s, armed...)
	g := &Gen{P: p, R: r, T: t}
	if p.Prelude != nil {
		p.Prelude(t, g)
	}
	n := rapid.IntRange(p.MinOps, p.MaxOps).Draw(t, "nops")
	for i := 0; i < n && r.Viol == nil && r.Diverged == ""; i++ {
		if !r.Step(g.Next()) {
			break
		}
	}
	return r
}

// Replay executes a fixed list of operations (no generator).
func Replay(s *sut.SUT, ops []Op, seed int64, armed ...string) *Runner {
	if err := s.Reset(seed, true); err != nil {
		panic(err)
	}
	r := NewRunner(s, armed...)
	for _, op := range ops {
		if !r.Step(op) {
			break
		}
	}
	return r
}
