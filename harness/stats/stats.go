// Package stats collects what a check run actually covered and hands it to the
// driver (/verif/check) as JSON: evaluations, distinct non-trivial cases,
// class histogram, samples, violations.
package stats

import (
	"crypto/sha256"
	"encoding/hex"
	"encoding/json"
	"fmt"
	"os"
	"sort"
	"sync"
)

type Violation struct {
	Property  string         `json:"property"`
	Rule      string         `json:"rule"`
	Detail    string         `json:"detail"`
	Signature map[string]any `json:"signature,omitempty"`
	Replay    string         `json:"replay,omitempty"`
}

type Collector struct {
	mu          sync.Mutex
	Property    string         `json:"property"`
	Evaluations int            `json:"evaluations"`
	Nontrivial  int            `json:"distinct_nontrivial"`
	Classes     map[string]int `json:"classes"`
	Samples     []any          `json:"samples"`
	Violations  []Violation    `json:"violations"`
	Known       []string       `json:"known_findings"`
	Notes       []string       `json:"notes"`
	Requested   int            `json:"requested"`
	Exhaustive  bool           `json:"exhaustive"`
	Excluded    map[string]int `json:"excluded_by_construction"`
	SeenHashes  []string       `json:"seen_hashes"`
	seen        map[string]bool
	maxSamples  int
}

var C = &Collector{Classes: map[string]int{}, Excluded: map[string]int{}, seen: map[string]bool{}, maxSamples: 5}

func Hash(v any) string {
	b, _ := json.Marshal(v)
	h := sha256.Sum256(b)
	return hex.EncodeToString(h[:8])
}

// Eval records one executed case. key identifies the case content (for
// distinctness), nontrivial says whether it satisfies the property's stated
// non-triviality rule, sample is what gets written out if it is kept.
func (c *Collector) Eval(key string, nontrivial bool, sample func() any) {
	c.mu.Lock()
	defer c.mu.Unlock()
	c.Evaluations++
	if !nontrivial {
		return
	}
	if c.seen[key] {
		return
	}
	c.seen[key] = true
	c.Nontrivial++
	if len(c.Samples) < c.maxSamples && sample != nil {
		c.Samples = append(c.Samples, sample())
	}
}

// EvalN records n executed cases that are trivial or not individually tracked.
func (c *Collector) EvalN(n int) {
	c.mu.Lock()
	c.Evaluations += n
	c.mu.Unlock()
}

func (c *Collector) Class(name string, n int) {
	c.mu.Lock()
	c.Classes[name] += n
	c.mu.Unlock()
}

func (c *Collector) Exclude(name string, n int) {
	c.mu.Lock()
	c.Excluded[name] += n
	c.mu.Unlock()
}

func (c *Collector) Note(f string, a ...any) {
	c.mu.Lock()
	c.Notes = append(c.Notes, fmt.Sprintf(f, a...))
	c.mu.Unlock()
}

func (c *Collector) Violate(v Violation) {
	c.mu.Lock()
	c.Violations = append(c.Violations, v)
	c.mu.Unlock()
}

func (c *Collector) KnownFinding(id string) {
	c.mu.Lock()
	c.Known = append(c.Known, id)
	c.mu.Unlock()
}

func (c *Collector) AddSample(s any) {
	c.mu.Lock()
	if len(c.Samples) < c.maxSamples {
		c.Samples = append(c.Samples, s)
	}
	c.mu.Unlock()
}

// Flush writes the collector to $VERIF_STATS (if set).
func (c *Collector) Flush() {
	p := os.Getenv("VERIF_STATS")
	if p == "" {
		return
	}
	c.mu.Lock()
	defer c.mu.Unlock()
	c.SeenHashes = c.SeenHashes[:0]
	if len(c.seen) <= 500000 {
		for k := range c.seen {
			c.SeenHashes = append(c.SeenHashes, k)
		}
		sort.Strings(c.SeenHashes)
	} else {
		c.SeenHashes = nil
	}
	b, err := json.MarshalIndent(c, "", " ")
	if err != nil {
		// never lose the verdict because a sample does not serialise
		c.Notes = append(c.Notes, "samples dropped: "+err.Error())
		c.Samples = nil
		b, err = json.MarshalIndent(c, "", " ")
	}
	if err != nil {
		b = []byte(fmt.Sprintf(`{"error":%q}`, err.Error()))
	}
	_ = os.WriteFile(p, b, 0o644)
}
