package props

import (
	"context"
	"encoding/base64"
	"encoding/json"
	"fmt"
	"math"
	"sort"
	"strings"
	"testing"
	"time"

	"cloud.google.com/go/pubsub/apiv1/pubsubpb"
	"google.golang.org/grpc/codes"
	"google.golang.org/grpc/status"
	"google.golang.org/protobuf/encoding/prototext"
	"google.golang.org/protobuf/proto"
	"google.golang.org/protobuf/types/known/durationpb"
	"google.golang.org/protobuf/types/known/fieldmaskpb"
	"google.golang.org/protobuf/types/known/timestamppb"
	"pgregory.net/rapid"

	"verif/stats"
	"verif/sut"
)

// ---------------------------------------------------------------- fixture

type fixture struct {
	liveAck, staleAck, foreignAck string
	msgID                         string
}

const (
	fxT1, fxT2, fxTdel = "projects/p/topics/t1", "projects/p/topics/t2", "projects/p/topics/tdel"
	fxS1, fxS2, fxSdel = "projects/p/subscriptions/s1", "projects/p/subscriptions/s2", "projects/p/subscriptions/sdel"
	fxN1               = "projects/p/snapshots/n1"
)

func buildFixture(ctx context.Context, s *sut.SUT) (*fixture, error) {
	fx := &fixture{}
	steps := []func() error{
		func() error {
			_, e := s.Pub.CreateTopic(ctx, &pubsubpb.Topic{Name: fxT1, Labels: map[string]string{"a": "b"}})
			return e
		},
		func() error { _, e := s.Pub.CreateTopic(ctx, &pubsubpb.Topic{Name: fxT2}); return e },
		func() error { _, e := s.Pub.CreateTopic(ctx, &pubsubpb.Topic{Name: fxTdel}); return e },
		func() error {
			_, e := s.Sub.CreateSubscription(ctx, &pubsubpb.Subscription{Name: fxS1, Topic: fxT1})
			return e
		},
		func() error {
			_, e := s.Sub.CreateSubscription(ctx, &pubsubpb.Subscription{Name: fxS2, Topic: fxT1, EnableMessageOrdering: true, Filter: `attributes:x`,
				DeadLetterPolicy: &pubsubpb.DeadLetterPolicy{DeadLetterTopic: fxT2, MaxDeliveryAttempts: 2},
				RetryPolicy:      &pubsubpb.RetryPolicy{MinimumBackoff: durationpb.New(time.Second)}})
			return e
		},
		func() error {
			_, e := s.Sub.CreateSubscription(ctx, &pubsubpb.Subscription{Name: fxSdel, Topic: fxTdel})
			return e
		},
		func() error {
			_, e := s.Sub.DeleteSubscription(ctx, &pubsubpb.DeleteSubscriptionRequest{Subscription: fxSdel})
			return e
		},
		func() error { _, e := s.Pub.DeleteTopic(ctx, &pubsubpb.DeleteTopicRequest{Topic: fxTdel}); return e },
		func() error {
			r, e := s.Pub.Publish(ctx, &pubsubpb.PublishRequest{Topic: fxT1, Messages: []*pubsubpb.PubsubMessage{
				{Data: []byte(`{"i":1}`), Attributes: map[string]string{"x": "1"}, OrderingKey: "k"},
				{Data: []byte(`{"i":2}`), Attributes: map[string]string{"x": "2"}, OrderingKey: "k"},
				{Data: []byte(`{"i":3}`)}}})
			if e == nil {
				fx.msgID = r.MessageIds[0]
			}
			return e
		},
		func() error {
			r, e := s.Sub.Pull(ctx, &pubsubpb.PullRequest{Subscription: fxS1, MaxMessages: 2, ReturnImmediately: true})
			if e == nil && len(r.ReceivedMessages) == 2 {
				fx.liveAck, fx.staleAck = r.ReceivedMessages[0].AckId, r.ReceivedMessages[1].AckId
				_, e = s.Sub.Acknowledge(ctx, &pubsubpb.AcknowledgeRequest{Subscription: fxS1, AckIds: []string{fx.staleAck}})
			} else if e == nil {
				e = fmt.Errorf("fixture pull returned %d", len(r.ReceivedMessages))
			}
			return e
		},
		func() error {
			r, e := s.Sub.Pull(ctx, &pubsubpb.PullRequest{Subscription: fxS2, MaxMessages: 1, ReturnImmediately: true})
			if e == nil && len(r.ReceivedMessages) == 1 {
				fx.foreignAck = r.ReceivedMessages[0].AckId
			} else if e == nil {
				e = fmt.Errorf("fixture pull s2 returned %d", len(r.ReceivedMessages))
			}
			return e
		},
		func() error {
			_, e := s.Sub.CreateSnapshot(ctx, &pubsubpb.CreateSnapshotRequest{Name: fxN1, Subscription: fxS1})
			return e
		},
	}
	for i, st := range steps {
		if err := st(); err != nil {
			return nil, fmt.Errorf("fixture step %d: %w", i, err)
		}
	}
	return fx, nil
}

// ---------------------------------------------------------------- domains

type dom struct{ rt *rapid.T }

func (d dom) pick(label string, xs ...string) string { return rapid.SampledFrom(xs).Draw(d.rt, label) }

func (d dom) topicName() string {
	return d.pick("topic", fxT1, fxT1, fxT2, fxTdel, "projects/p/topics/unknown", "projects/q/topics/t1", fxS1, "", "projects/p/topics/", "projects//topics/t1", "projects/p/topics/t1/x", "t1", "projects/p/topics/%", "projects/p/topics/ü")
}

func (d dom) subName() string {
	return d.pick("sub", fxS1, fxS1, fxS2, fxSdel, "projects/p/subscriptions/unknown", fxT1, "", "projects/p/subscriptions/", "projects/p/subscriptions/s1/x", "s1", "projects/p/subscriptions/new")
}

func (d dom) snapName() string {
	return d.pick("snap", fxN1, fxN1, "projects/p/snapshots/unknown", fxS1, "", "projects/p/snapshots/", "projects/p/snapshots/n1/x", "projects/p/snapshots/new")
}

func (d dom) project() string {
	return d.pick("project", "projects/p", "projects/q", "", "p", "projects/", "projects/p/", "projects/%")
}

func (d dom) i32(label string) int32 {
	return rapid.SampledFrom([]int32{math.MinInt32, -1, 0, 0, 1, 2, 5, 1000, math.MaxInt32}).Draw(d.rt, label)
}

func (d dom) dur(label string) *durationpb.Duration {
	return rapid.SampledFrom([]*durationpb.Duration{nil, nil, {}, {Seconds: -1}, {Nanos: 1}, {Seconds: 10}, {Seconds: 600}, {Seconds: 86400 * 31}, {Seconds: 315576000000}, {Seconds: math.MaxInt64}, {Seconds: math.MinInt64}, {Seconds: 1, Nanos: -5}, {Seconds: 1, Nanos: 2000000000}}).Draw(d.rt, label)
}

func (d dom) ts(label string) *timestamppb.Timestamp {
	now := sut.Now()
	return rapid.SampledFrom([]*timestamppb.Timestamp{nil, {}, timestamppb.New(time.Time{}), timestamppb.New(now), timestamppb.New(now.Add(-time.Hour)), timestamppb.New(now.Add(1000 * time.Hour)), {Seconds: -62135596801}, {Seconds: 253402300800}, {Seconds: math.MaxInt64}, {Seconds: 1, Nanos: -1}}).Draw(d.rt, label)
}

func (d dom) labels() map[string]string {
	return rapid.SampledFrom([]map[string]string{nil, {}, {"k": "v"}, {"": ""}, {"a": "é", "b": strings.Repeat("x", 300)}}).Draw(d.rt, "labels")
}

func (d dom) ackIDs(fx *fixture) []string {
	pool := []string{fx.liveAck, fx.staleAck, fx.foreignAck, "00000000-0000-4000-8000-000000000000", "", "x", "{" + fx.liveAck + "}", "urn:uuid:" + fx.liveAck, strings.ToUpper(fx.liveAck), fx.msgID, "not-a-uuid-at-all-not-a-uuid-at-all!"}
	n := rapid.IntRange(0, 3).Draw(d.rt, "nack")
	var out []string
	for i := 0; i < n; i++ {
		out = append(out, rapid.SampledFrom(pool).Draw(d.rt, "ackid"))
	}
	if rapid.IntRange(0, 5).Draw(d.rt, "nilacks") == 0 {
		return nil
	}
	return out
}

// maskHot: the paths whose handling reads nested request messages (a mask
// that names them while the message is absent is the usual way to clear a
// setting)
var maskHot = map[string]bool{"labels": true, "expiration_policy": true, "message_retention_duration": true, "retry_policy": true, "push_config": true, "filter": true, "dead_letter_policy": true, "enable_message_ordering": true}

func (d dom) mask(known ...string) *fieldmaskpb.FieldMask {
	var hot []string
	for _, k := range known {
		if maskHot[k] {
			hot = append(hot, k)
		}
	}
	switch rapid.IntRange(0, 9).Draw(d.rt, "maskmode") {
	case 7:
		return &fieldmaskpb.FieldMask{Paths: []string{rapid.SampledFrom(hot).Draw(d.rt, "mp")}}
	case 8, 9:
		var ps []string
		for _, k := range hot {
			if rapid.Bool().Draw(d.rt, "mh") {
				ps = append(ps, k)
			}
		}
		return &fieldmaskpb.FieldMask{Paths: ps}
	case 0:
		return nil
	case 1:
		return &fieldmaskpb.FieldMask{}
	case 2:
		return &fieldmaskpb.FieldMask{Paths: []string{"nonsense"}}
	case 3:
		k := rapid.SampledFrom(known).Draw(d.rt, "mp")
		return &fieldmaskpb.FieldMask{Paths: []string{k, k}}
	default:
		n := rapid.IntRange(1, 3).Draw(d.rt, "nmask")
		var ps []string
		for i := 0; i < n; i++ {
			ps = append(ps, rapid.SampledFrom(known).Draw(d.rt, "mp"))
		}
		return &fieldmaskpb.FieldMask{Paths: ps}
	}
}

func (d dom) filter() string {
	return d.pick("filter", "", "", `attributes:x`, `attributes.x="1"`, `attributes:`, `(`, `AND`, "\x00", `attributes.x!="`, strings.Repeat("(", 50)+"attributes:x"+strings.Repeat(")", 50))
}

func (d dom) push() *pubsubpb.PushConfig {
	return rapid.SampledFrom([]*pubsubpb.PushConfig{nil, nil, {}, {PushEndpoint: "http://127.0.0.1:1/push"}, {PushEndpoint: "::not a url"},
		{PushEndpoint: "http://x", Attributes: map[string]string{"x-goog-version": "v1"}}, {PushEndpoint: "http://x", Attributes: map[string]string{"x-goog-version": "v2"}},
		{Attributes: map[string]string{"other": "1"}}, {AuthenticationMethod: &pubsubpb.PushConfig_OidcToken_{OidcToken: &pubsubpb.PushConfig_OidcToken{}}},
		{Wrapper: &pubsubpb.PushConfig_NoWrapper_{NoWrapper: &pubsubpb.PushConfig_NoWrapper{}}}, {Wrapper: &pubsubpb.PushConfig_PubsubWrapper_{PubsubWrapper: &pubsubpb.PushConfig_PubsubWrapper{}}}}).Draw(d.rt, "push")
}

func (d dom) subscription(fx *fixture, forUpdate bool) *pubsubpb.Subscription {
	if rapid.IntRange(0, 9).Draw(d.rt, "nilsub") == 0 {
		return nil
	}
	sb := &pubsubpb.Subscription{Name: d.subName(), Topic: d.topicName(), Filter: d.filter(), Labels: d.labels(), PushConfig: d.push(),
		EnableMessageOrdering: rapid.Bool().Draw(d.rt, "ord"), MessageRetentionDuration: d.dur("ret"), AckDeadlineSeconds: d.i32("ackdl"),
		Detached: rapid.IntRange(0, 9).Draw(d.rt, "detached") == 0, RetainAckedMessages: rapid.IntRange(0, 9).Draw(d.rt, "retain") == 0}
	switch rapid.IntRange(0, 3).Draw(d.rt, "exp") {
	case 0:
		sb.ExpirationPolicy = &pubsubpb.ExpirationPolicy{}
	case 1:
		sb.ExpirationPolicy = &pubsubpb.ExpirationPolicy{Ttl: d.dur("ttl")}
	}
	switch rapid.IntRange(0, 3).Draw(d.rt, "rp") {
	case 0:
		sb.RetryPolicy = &pubsubpb.RetryPolicy{}
	case 1:
		sb.RetryPolicy = &pubsubpb.RetryPolicy{MinimumBackoff: d.dur("minb"), MaximumBackoff: d.dur("maxb")}
	}
	switch rapid.IntRange(0, 3).Draw(d.rt, "dlp") {
	case 0:
		sb.DeadLetterPolicy = &pubsubpb.DeadLetterPolicy{}
	case 1:
		sb.DeadLetterPolicy = &pubsubpb.DeadLetterPolicy{DeadLetterTopic: d.topicName(), MaxDeliveryAttempts: d.i32("att")}
	}
	return sb
}

func (d dom) payload() []byte {
	return rapid.SampledFrom([][]byte{[]byte(`{"a":1}`), []byte(`{"a":1}`), nil, {}, []byte(`not json`), []byte(`{"a":`), []byte("\xff\xfe"), []byte(`[1,2,3]`), []byte(strings.Repeat(" ", 100) + `1`), []byte(`{"a":1}{"b":2}`)}).Draw(d.rt, "payload")
}

func (d dom) pageToken() string {
	return d.pick("token", "", "", "00000000-0000-4000-8000-000000000000", "garbage", "ffffffff-ffff-ffff-ffff-ffffffffffff", " ")
}

// ---------------------------------------------------------------- requests

type genReq struct {
	Method string
	Msg    proto.Message
	IsPull bool
	Call   func(ctx context.Context, s *sut.SUT) error
}

var subPaths = []string{"name", "topic", "labels", "expiration_policy", "message_retention_duration", "enable_message_ordering", "retry_policy", "push_config", "filter", "dead_letter_policy", "ack_deadline_seconds", "retain_acked_messages", "detached"}
var topicPaths = []string{"name", "labels", "message_storage_policy", "kms_key_name", "schema_settings", "satisfies_pzs"}

var c16Methods = []string{
	"CreateTopic", "UpdateTopic", "Publish", "GetTopic", "ListTopics", "ListTopicSubscriptions", "ListTopicSnapshots", "DeleteTopic", "DetachSubscription",
	"CreateSubscription", "GetSubscription", "UpdateSubscription", "ListSubscriptions", "DeleteSubscription", "ModifyAckDeadline", "Acknowledge", "Pull",
	"StreamingPull", "ModifyPushConfig", "GetSnapshot", "ListSnapshots", "CreateSnapshot", "UpdateSnapshot", "DeleteSnapshot", "Seek",
}

func genRequest(rt *rapid.T, fx *fixture, method string) genReq {
	d := dom{rt}
	g := genReq{Method: method}
	switch method {
	case "CreateTopic":
		m := &pubsubpb.Topic{Name: d.topicName(), Labels: d.labels()}
		if rapid.IntRange(0, 7).Draw(rt, "adv") == 0 {
			m.KmsKeyName = "k"
		}
		if rapid.IntRange(0, 7).Draw(rt, "adv2") == 0 {
			m.MessageRetentionDuration = d.dur("tret")
		}
		g.Msg, g.Call = m, func(ctx context.Context, s *sut.SUT) error { _, e := s.Pub.CreateTopic(ctx, m); return e }
	case "UpdateTopic":
		m := &pubsubpb.UpdateTopicRequest{UpdateMask: d.mask(topicPaths...)}
		if rapid.IntRange(0, 5).Draw(rt, "niltopic") != 0 {
			m.Topic = &pubsubpb.Topic{Name: d.topicName(), Labels: d.labels()}
		}
		g.Msg, g.Call = m, func(ctx context.Context, s *sut.SUT) error { _, e := s.Pub.UpdateTopic(ctx, m); return e }
	case "Publish":
		m := &pubsubpb.PublishRequest{Topic: d.topicName()}
		n := rapid.IntRange(0, 3).Draw(rt, "nmsg")
		for i := 0; i < n; i++ {
			if rapid.IntRange(0, 9).Draw(rt, "nilmsg") == 0 {
				m.Messages = append(m.Messages, nil)
				continue
			}
			m.Messages = append(m.Messages, &pubsubpb.PubsubMessage{Data: d.payload(), Attributes: d.labels(), OrderingKey: d.pick("okey", "", "k", "é"), MessageId: d.pick("mid", "", "client-set"), PublishTime: d.ts("pt")})
		}
		g.Msg, g.Call = m, func(ctx context.Context, s *sut.SUT) error { _, e := s.Pub.Publish(ctx, m); return e }
	case "GetTopic":
		m := &pubsubpb.GetTopicRequest{Topic: d.topicName()}
		g.Msg, g.Call = m, func(ctx context.Context, s *sut.SUT) error { _, e := s.Pub.GetTopic(ctx, m); return e }
	case "ListTopics":
		m := &pubsubpb.ListTopicsRequest{Project: d.project(), PageSize: d.i32("ps"), PageToken: d.pageToken()}
		g.Msg, g.Call = m, func(ctx context.Context, s *sut.SUT) error { _, e := s.Pub.ListTopics(ctx, m); return e }
	case "ListTopicSubscriptions":
		m := &pubsubpb.ListTopicSubscriptionsRequest{Topic: d.topicName(), PageSize: d.i32("ps"), PageToken: d.pageToken()}
		g.Msg, g.Call = m, func(ctx context.Context, s *sut.SUT) error { _, e := s.Pub.ListTopicSubscriptions(ctx, m); return e }
	case "ListTopicSnapshots":
		m := &pubsubpb.ListTopicSnapshotsRequest{Topic: d.topicName(), PageSize: d.i32("ps"), PageToken: d.pageToken()}
		g.Msg, g.Call = m, func(ctx context.Context, s *sut.SUT) error { _, e := s.Pub.ListTopicSnapshots(ctx, m); return e }
	case "DeleteTopic":
		m := &pubsubpb.DeleteTopicRequest{Topic: d.topicName()}
		g.Msg, g.Call = m, func(ctx context.Context, s *sut.SUT) error { _, e := s.Pub.DeleteTopic(ctx, m); return e }
	case "DetachSubscription":
		m := &pubsubpb.DetachSubscriptionRequest{Subscription: d.subName()}
		g.Msg, g.Call = m, func(ctx context.Context, s *sut.SUT) error { _, e := s.Pub.DetachSubscription(ctx, m); return e }
	case "CreateSubscription":
		m := d.subscription(fx, false)
		if m == nil {
			m = &pubsubpb.Subscription{}
		}
		g.Msg, g.Call = m, func(ctx context.Context, s *sut.SUT) error { _, e := s.Sub.CreateSubscription(ctx, m); return e }
	case "GetSubscription":
		m := &pubsubpb.GetSubscriptionRequest{Subscription: d.subName()}
		g.Msg, g.Call = m, func(ctx context.Context, s *sut.SUT) error { _, e := s.Sub.GetSubscription(ctx, m); return e }
	case "UpdateSubscription":
		m := &pubsubpb.UpdateSubscriptionRequest{Subscription: d.subscription(fx, true), UpdateMask: d.mask(subPaths...)}
		g.Msg, g.Call = m, func(ctx context.Context, s *sut.SUT) error { _, e := s.Sub.UpdateSubscription(ctx, m); return e }
	case "ListSubscriptions":
		m := &pubsubpb.ListSubscriptionsRequest{Project: d.project(), PageSize: d.i32("ps"), PageToken: d.pageToken()}
		g.Msg, g.Call = m, func(ctx context.Context, s *sut.SUT) error { _, e := s.Sub.ListSubscriptions(ctx, m); return e }
	case "DeleteSubscription":
		m := &pubsubpb.DeleteSubscriptionRequest{Subscription: d.subName()}
		g.Msg, g.Call = m, func(ctx context.Context, s *sut.SUT) error { _, e := s.Sub.DeleteSubscription(ctx, m); return e }
	case "ModifyAckDeadline":
		m := &pubsubpb.ModifyAckDeadlineRequest{Subscription: d.subName(), AckIds: d.ackIDs(fx), AckDeadlineSeconds: d.i32("secs")}
		g.Msg, g.Call = m, func(ctx context.Context, s *sut.SUT) error { _, e := s.Sub.ModifyAckDeadline(ctx, m); return e }
	case "Acknowledge":
		m := &pubsubpb.AcknowledgeRequest{Subscription: d.subName(), AckIds: d.ackIDs(fx)}
		g.Msg, g.Call = m, func(ctx context.Context, s *sut.SUT) error { _, e := s.Sub.Acknowledge(ctx, m); return e }
	case "Pull":
		m := &pubsubpb.PullRequest{Subscription: d.subName(), MaxMessages: d.i32("max"), ReturnImmediately: true}
		g.IsPull = true
		g.Msg, g.Call = m, func(ctx context.Context, s *sut.SUT) error { _, e := s.Sub.Pull(ctx, m); return e }
	case "StreamingPull":
		m := &pubsubpb.StreamingPullRequest{Subscription: d.subName(), AckIds: d.ackIDs(fx), StreamAckDeadlineSeconds: d.i32("sads"), ClientId: d.pick("cid", "", "c1"),
			MaxOutstandingMessages: int64(d.i32("mom")), MaxOutstandingBytes: int64(d.i32("mob"))}
		if rapid.Bool().Draw(rt, "moddl") {
			m.ModifyDeadlineAckIds = d.ackIDs(fx)
			n := len(m.ModifyDeadlineAckIds)
			if rapid.IntRange(0, 3).Draw(rt, "mismatch") == 0 {
				n++
			}
			for i := 0; i < n; i++ {
				m.ModifyDeadlineSeconds = append(m.ModifyDeadlineSeconds, d.i32("mds"))
			}
		}
		g.IsPull = true
		g.Msg = m
		g.Call = func(ctx context.Context, s *sut.SUT) error {
			ctx, cancel := context.WithTimeout(ctx, 300*time.Millisecond)
			defer cancel()
			st, err := s.Sub.StreamingPull(ctx)
			if err != nil {
				return err
			}
			if err := st.Send(m); err != nil {
				return err
			}
			for i := 0; i < 3; i++ {
				if _, err := st.Recv(); err != nil {
					if c := status.Code(err); c == codes.DeadlineExceeded || c == codes.Canceled {
						return nil // the stream stayed open until we hung up: that is an answer
					}
					return err
				}
			}
			return nil
		}
	case "ModifyPushConfig":
		m := &pubsubpb.ModifyPushConfigRequest{Subscription: d.subName(), PushConfig: d.push()}
		g.Msg, g.Call = m, func(ctx context.Context, s *sut.SUT) error { _, e := s.Sub.ModifyPushConfig(ctx, m); return e }
	case "GetSnapshot":
		m := &pubsubpb.GetSnapshotRequest{Snapshot: d.snapName()}
		g.Msg, g.Call = m, func(ctx context.Context, s *sut.SUT) error { _, e := s.Sub.GetSnapshot(ctx, m); return e }
	case "ListSnapshots":
		m := &pubsubpb.ListSnapshotsRequest{Project: d.project(), PageSize: d.i32("ps"), PageToken: d.pageToken()}
		g.Msg, g.Call = m, func(ctx context.Context, s *sut.SUT) error { _, e := s.Sub.ListSnapshots(ctx, m); return e }
	case "CreateSnapshot":
		m := &pubsubpb.CreateSnapshotRequest{Name: d.snapName(), Subscription: d.subName(), Labels: d.labels()}
		g.Msg, g.Call = m, func(ctx context.Context, s *sut.SUT) error { _, e := s.Sub.CreateSnapshot(ctx, m); return e }
	case "UpdateSnapshot":
		m := &pubsubpb.UpdateSnapshotRequest{UpdateMask: d.mask("labels", "expire_time")}
		if rapid.Bool().Draw(rt, "hassnap") {
			m.Snapshot = &pubsubpb.Snapshot{Name: d.snapName(), Labels: d.labels()}
		}
		g.Msg, g.Call = m, func(ctx context.Context, s *sut.SUT) error { _, e := s.Sub.UpdateSnapshot(ctx, m); return e }
	case "DeleteSnapshot":
		m := &pubsubpb.DeleteSnapshotRequest{Snapshot: d.snapName()}
		g.Msg, g.Call = m, func(ctx context.Context, s *sut.SUT) error { _, e := s.Sub.DeleteSnapshot(ctx, m); return e }
	case "Seek":
		m := &pubsubpb.SeekRequest{Subscription: d.subName()}
		switch rapid.IntRange(0, 3).Draw(rt, "target") {
		case 0:
		case 1:
			m.Target = &pubsubpb.SeekRequest_Snapshot{Snapshot: d.snapName()}
		default:
			m.Target = &pubsubpb.SeekRequest_Time{Time: d.ts("seek")}
		}
		g.Msg, g.Call = m, func(ctx context.Context, s *sut.SUT) error { _, e := s.Sub.Seek(ctx, m); return e }
	default:
		panic("unknown method " + method)
	}
	return g
}

// ---------------------------------------------------------------- oracle

type c16Case struct {
	Kind    string   `json:"kind"` // "requests"
	Methods []string `json:"methods"`
	Reqs    []string `json:"reqs"` // base64 wire encoding
	Text    []string `json:"text"` // prototext, for reading
}

// reqJSON renders a request for display (prototext: unlike protojson it can
// show out-of-range durations and timestamps).
func reqJSON(m proto.Message) string {
	return prototext.MarshalOptions{Multiline: false}.Format(m)
}

// reqWire is the replayable form: base64 of the wire encoding.
func reqWire(m proto.Message) string {
	b, _ := proto.Marshal(m)
	return base64.StdEncoding.EncodeToString(b)
}

// dumpForC16 omits the columns a failing Pull may legitimately touch.
func dumpForC16(s *sut.SUT, pull bool) string {
	var d string
	var err error
	if pull {
		d, err = s.Dump("subscriptions.expires_at")
	} else {
		d, err = s.Dump()
	}
	if err != nil {
		return "DUMP-ERROR " + err.Error()
	}
	return d
}

// checkRequest sends one request and applies the C16 oracle.
func checkRequest(ctx context.Context, s *sut.SUT, g genReq) (rule, detail string, sig map[string]any, code codes.Code) {
	before := dumpForC16(s, g.IsPull)
	done := make(chan error, 1)
	cctx, cancel := context.WithTimeout(ctx, 20*time.Second)
	defer cancel()
	go func() { done <- g.Call(cctx, s) }()
	var err error
	select {
	case err = <-done:
	case <-time.After(25 * time.Second):
		return "no-answer", fmt.Sprintf("%s %s: no status within 25 s", g.Method, reqJSON(g.Msg)), map[string]any{"method": g.Method}, codes.Unknown
	}
	code = status.Code(err)
	if g.Method == "StreamingPull" && !s.WaitStreamsIdle(10*time.Second) {
		return "no-answer", fmt.Sprintf("%s %s: the stream handler did not end within 10 s of the client hanging up", g.Method, reqJSON(g.Msg)), map[string]any{"method": g.Method}, code
	}
	if p := s.TakePanics(); len(p) > 0 {
		first := strings.SplitN(p[0].Value, "\n", 2)[0]
		return "handler-panic", fmt.Sprintf("%s %s: the handler panicked (%s); without the harness's recover shim this kills the server process", g.Method, reqJSON(g.Msg), first),
			map[string]any{"method": g.Method, "panic": panicClass(first)}, code
	}
	if code == codes.DeadlineExceeded && !g.IsPull {
		return "no-answer", fmt.Sprintf("%s %s: no status within 20 s", g.Method, reqJSON(g.Msg)), map[string]any{"method": g.Method}, code
	}
	// a streaming pull is a long-lived exchange that always ends with a status:
	// what it delivered before the end is not "a rejected request"
	if code != codes.OK && g.Method != "StreamingPull" {
		after := dumpForC16(s, g.IsPull)
		if after != before {
			return "error-changed-state", fmt.Sprintf("%s %s answered %s (%v) but changed the stored state:\n%s", g.Method, reqJSON(g.Msg), code, err, diffLines(before, after)), map[string]any{"method": g.Method}, code
		}
	}
	return "", "", nil, code
}

func panicClass(s string) string {
	for _, k := range []string{"maxMessages", "maxBytes", "TTL must", "messageTTL", "maxDeliveryAttempts", "MaxDeliveryAttempts and DeadLetterTopic", "nil pointer", "index out of range", "must provide", "non-empty name"} {
		if strings.Contains(s, k) {
			return k
		}
	}
	return "other"
}

func diffLines(a, b string) string {
	am, bm := map[string]bool{}, map[string]bool{}
	for _, l := range strings.Split(a, "\n") {
		am[l] = true
	}
	for _, l := range strings.Split(b, "\n") {
		bm[l] = true
	}
	var out []string
	for l := range am {
		if !bm[l] {
			out = append(out, "- "+l)
		}
	}
	for l := range bm {
		if !am[l] {
			out = append(out, "+ "+l)
		}
	}
	sort.Strings(out)
	if len(out) > 12 {
		out = out[:12]
	}
	return strings.Join(out, "\n")
}

func wedged(ctx context.Context, s *sut.SUT) error {
	cctx, cancel := context.WithTimeout(ctx, 15*time.Second)
	defer cancel()
	_, err := s.Pub.ListTopics(cctx, &pubsubpb.ListTopicsRequest{Project: "projects/p"})
	return err
}

func TestC16(t *testing.T) {
	defer reportFailure(t, "C16")
	s := getSUT(t)
	defer closeSUT()
	ctx := context.Background()
	rapid.Check(t, func(rt *rapid.T) {
		if err := s.Reset(seed(), true); err != nil {
			rt.Fatalf("reset: %v", err)
		}
		fx, err := buildFixture(ctx, s)
		if err != nil {
			rt.Fatalf("fixture: %v", err)
		}
		n := rapid.IntRange(1, 12).Draw(rt, "nreq")
		cs := c16Case{Kind: "requests"}
		for i := 0; i < n; i++ {
			method := rapid.SampledFrom(c16Methods).Draw(rt, "method")
			g := genRequest(rt, fx, method)
			cs.Methods = append(cs.Methods, method)
			cs.Reqs = append(cs.Reqs, reqWire(g.Msg))
			cs.Text = append(cs.Text, reqJSON(g.Msg))
			rule, detail, sig, code := checkRequest(ctx, s, g)
			stats.C.Class("rpc/"+method+"/"+code.String(), 1)
			stats.C.Eval(stats.Hash([]string{method, cs.Reqs[i]}), code != codes.OK || true, func() any { return map[string]any{"method": method, "request": cs.Text[i], "status": code.String()} })
			if rule != "" {
				if rule == "handler-panic" || rule == "no-answer" {
					// the database may be wedged by the abandoned transaction: start over with a fresh SUT
					closeSUT()
					s = getSUT(t)
				}
				failWith(rt, failure{Rule: rule, Detail: detail, Sig: sig, Replay: cs})
			}
		}
		if err := wedged(ctx, s); err != nil {
			closeSUT()
			s = getSUT(t)
			failWith(rt, failure{Rule: "wedged", Detail: fmt.Sprintf("after %v the server no longer answers a trivial ListTopics: %v", cs.Methods, err), Replay: cs})
		}
	})
}

func init() {
	replayers["requests"] = func(t *testing.T, prop string, raw json.RawMessage) {
		var cs c16Case
		if err := json.Unmarshal(raw, &cs); err != nil {
			t.Fatal(err)
		}
		s := getSUT(t)
		defer closeSUT()
		ctx := context.Background()
		_ = s.Reset(seed(), true)
		if _, err := buildFixture(ctx, s); err != nil {
			t.Fatal(err)
		}
		for i, method := range cs.Methods {
			g, err := reqFromJSON(method, cs.Reqs[i])
			if err != nil {
				t.Fatal(err)
			}
			if rule, detail, sig, _ := checkRequest(ctx, s, g); rule != "" {
				violate(t, prop, failure{Rule: rule, Detail: detail, Sig: sig})
				return
			}
		}
	}
}

// reqFromJSON rebuilds a request from its recorded JSON (replay path). Ack ids
// are taken literally: the fixture is deterministic (seeded UUIDs).
func reqFromJSON(method, js string) (genReq, error) {
	protos := map[string]proto.Message{
		"CreateTopic": &pubsubpb.Topic{}, "UpdateTopic": &pubsubpb.UpdateTopicRequest{}, "Publish": &pubsubpb.PublishRequest{}, "GetTopic": &pubsubpb.GetTopicRequest{},
		"ListTopics": &pubsubpb.ListTopicsRequest{}, "ListTopicSubscriptions": &pubsubpb.ListTopicSubscriptionsRequest{}, "ListTopicSnapshots": &pubsubpb.ListTopicSnapshotsRequest{},
		"DeleteTopic": &pubsubpb.DeleteTopicRequest{}, "DetachSubscription": &pubsubpb.DetachSubscriptionRequest{}, "CreateSubscription": &pubsubpb.Subscription{},
		"GetSubscription": &pubsubpb.GetSubscriptionRequest{}, "UpdateSubscription": &pubsubpb.UpdateSubscriptionRequest{}, "ListSubscriptions": &pubsubpb.ListSubscriptionsRequest{},
		"DeleteSubscription": &pubsubpb.DeleteSubscriptionRequest{}, "ModifyAckDeadline": &pubsubpb.ModifyAckDeadlineRequest{}, "Acknowledge": &pubsubpb.AcknowledgeRequest{},
		"Pull": &pubsubpb.PullRequest{}, "StreamingPull": &pubsubpb.StreamingPullRequest{}, "ModifyPushConfig": &pubsubpb.ModifyPushConfigRequest{}, "GetSnapshot": &pubsubpb.GetSnapshotRequest{},
		"ListSnapshots": &pubsubpb.ListSnapshotsRequest{}, "CreateSnapshot": &pubsubpb.CreateSnapshotRequest{}, "UpdateSnapshot": &pubsubpb.UpdateSnapshotRequest{},
		"DeleteSnapshot": &pubsubpb.DeleteSnapshotRequest{}, "Seek": &pubsubpb.SeekRequest{},
	}
	m := protos[method]
	if m == nil {
		return genReq{}, fmt.Errorf("unknown method %s", method)
	}
	wire, err := base64.StdEncoding.DecodeString(js)
	if err != nil {
		return genReq{}, err
	}
	if err := proto.Unmarshal(wire, m); err != nil {
		return genReq{}, err
	}
	return callFor(method, m), nil
}

func callFor(method string, msg proto.Message) genReq {
	g := genReq{Method: method, Msg: msg, IsPull: method == "Pull" || method == "StreamingPull"}
	g.Call = func(ctx context.Context, s *sut.SUT) error {
		var e error
		switch m := msg.(type) {
		case *pubsubpb.Topic:
			_, e = s.Pub.CreateTopic(ctx, m)
		case *pubsubpb.UpdateTopicRequest:
			_, e = s.Pub.UpdateTopic(ctx, m)
		case *pubsubpb.PublishRequest:
			_, e = s.Pub.Publish(ctx, m)
		case *pubsubpb.GetTopicRequest:
			_, e = s.Pub.GetTopic(ctx, m)
		case *pubsubpb.ListTopicsRequest:
			_, e = s.Pub.ListTopics(ctx, m)
		case *pubsubpb.ListTopicSubscriptionsRequest:
			_, e = s.Pub.ListTopicSubscriptions(ctx, m)
		case *pubsubpb.ListTopicSnapshotsRequest:
			_, e = s.Pub.ListTopicSnapshots(ctx, m)
		case *pubsubpb.DeleteTopicRequest:
			_, e = s.Pub.DeleteTopic(ctx, m)
		case *pubsubpb.DetachSubscriptionRequest:
			_, e = s.Pub.DetachSubscription(ctx, m)
		case *pubsubpb.Subscription:
			_, e = s.Sub.CreateSubscription(ctx, m)
		case *pubsubpb.GetSubscriptionRequest:
			_, e = s.Sub.GetSubscription(ctx, m)
		case *pubsubpb.UpdateSubscriptionRequest:
			_, e = s.Sub.UpdateSubscription(ctx, m)
		case *pubsubpb.ListSubscriptionsRequest:
			_, e = s.Sub.ListSubscriptions(ctx, m)
		case *pubsubpb.DeleteSubscriptionRequest:
			_, e = s.Sub.DeleteSubscription(ctx, m)
		case *pubsubpb.ModifyAckDeadlineRequest:
			_, e = s.Sub.ModifyAckDeadline(ctx, m)
		case *pubsubpb.AcknowledgeRequest:
			_, e = s.Sub.Acknowledge(ctx, m)
		case *pubsubpb.PullRequest:
			_, e = s.Sub.Pull(ctx, m)
		case *pubsubpb.ModifyPushConfigRequest:
			_, e = s.Sub.ModifyPushConfig(ctx, m)
		case *pubsubpb.GetSnapshotRequest:
			_, e = s.Sub.GetSnapshot(ctx, m)
		case *pubsubpb.ListSnapshotsRequest:
			_, e = s.Sub.ListSnapshots(ctx, m)
		case *pubsubpb.CreateSnapshotRequest:
			_, e = s.Sub.CreateSnapshot(ctx, m)
		case *pubsubpb.UpdateSnapshotRequest:
			_, e = s.Sub.UpdateSnapshot(ctx, m)
		case *pubsubpb.DeleteSnapshotRequest:
			_, e = s.Sub.DeleteSnapshot(ctx, m)
		case *pubsubpb.SeekRequest:
			_, e = s.Sub.Seek(ctx, m)
		case *pubsubpb.StreamingPullRequest:
			cctx, cancel := context.WithTimeout(ctx, 300*time.Millisecond)
			defer cancel()
			st, err := s.Sub.StreamingPull(cctx)
			if err != nil {
				return err
			}
			if err := st.Send(m); err != nil {
				return err
			}
			for i := 0; i < 3; i++ {
				if _, err := st.Recv(); err != nil {
					if c := status.Code(err); c == codes.DeadlineExceeded || c == codes.Canceled {
						return nil
					}
					return err
				}
			}
		}
		return e
	}
	return g
}
