package props

import (
	"testing"
	"time"

	"pgregory.net/rapid"

	"verif/hist"
)

var profC05 = &hist.Profile{
	Name: "C05", MinOps: 8, MaxOps: 30, Topics: 2, Subs: 3,
	W: map[string]int{
		hist.OpPublish: 22, hist.OpPull: 24, hist.OpAck: 16, hist.OpNack: 4, hist.OpModAck: 4, hist.OpAdvance: 12,
		hist.OpSeekTime: 2, hist.OpJob: 3, hist.OpSweep: 2, hist.OpCreateSub: 3, hist.OpDeleteSub: 1, hist.OpStreamAck: 2, hist.OpUpdateSub: 2, hist.OpSnapshot: 2, hist.OpSeekSnap: 2, hist.MacroSnapRoundtrip: 2,
	},
	Ordered: 85, Keys: []string{"", "K1", "K1", "K2", "K2", "K3"},
	DLPercent: 20, Attempts: []int{1, 2}, Retry: 50,
	MinBs: []time.Duration{100 * ms, sec, 10 * sec}, MaxBs: []time.Duration{0, sec, 600 * sec},
	Rets:     []time.Duration{0, 10 * time.Minute, 10 * time.Minute},
	NoSelfDL: true, AllowPruneCompleted: true, TargetExpiry: true,
	Prelude: func(t *rapid.T, g *hist.Gen) {
		g.R.Step(hist.Op{K: hist.OpCreateTopic, T: "t0"})
		g.R.Step(hist.Op{K: hist.OpCreateTopic, T: "t1"})
		cfg := g.GenCfg("t0")
		cfg.Ordered = true
		g.R.Step(hist.Op{K: hist.OpCreateSub, S: "s0", T: "t0", Cfg: &cfg})
		// a sibling on the same topic: what it acks must not disturb s0's order
		cfg1 := g.GenCfg("t0")
		g.R.Step(hist.Op{K: hist.OpCreateSub, S: "s1", T: "t0", Cfg: &cfg1})
	},
}

func init() {
	profiles["C05"] = profC05
	if thorough() {
		profC05.MaxOps = 60
	}
}

func TestC05(t *testing.T) {
	defer reportFailure(t, "C05")
	s := getSUT(t)
	defer closeSUT()
	sp := e1Spec{prop: "C05", profile: profC05, armed: []string{"C05", "C01"}, drain: true,
		nontrivial: func(r *hist.Runner) bool { return r.M.C["nt/blocked-successor-with-other-key-between"] > 0 }}
	runKnownCanaries(t, "C05")
	rapid.Check(t, func(rt *rapid.T) { runE1(rt, s, sp) })
}
