package props

import (
	"context"
	"testing"
	"time"

	"cloud.google.com/go/pubsub/apiv1/pubsubpb"

	"verif/sut"
)

func TestSmoke(t *testing.T) {
	s, err := sut.New()
	if err != nil {
		t.Fatal(err)
	}
	defer s.Close()
	if err := s.Reset(1, true); err != nil {
		t.Fatal(err)
	}
	ctx := context.Background()
	if _, err := s.Pub.CreateTopic(ctx, &pubsubpb.Topic{Name: "projects/p/topics/t"}); err != nil {
		t.Fatal(err)
	}
	if _, err := s.Sub.CreateSubscription(ctx, &pubsubpb.Subscription{Name: "projects/p/subscriptions/s", Topic: "projects/p/topics/t"}); err != nil {
		t.Fatal(err)
	}
	pr, err := s.Pub.Publish(ctx, &pubsubpb.PublishRequest{Topic: "projects/p/topics/t", Messages: []*pubsubpb.PubsubMessage{{Data: []byte(`{"a":1}`)}}})
	if err != nil {
		t.Fatal(err)
	}
	t0 := time.Now()
	r, err := s.Sub.Pull(ctx, &pubsubpb.PullRequest{Subscription: "projects/p/subscriptions/s", MaxMessages: 10, ReturnImmediately: true})
	if err != nil || len(r.ReceivedMessages) != 1 || r.ReceivedMessages[0].Message.MessageId != pr.MessageIds[0] {
		t.Fatalf("pull1: %v %v", r, err)
	}
	t.Logf("pull took %v", time.Since(t0))
	sut.Advance(10900 * time.Millisecond)
	r, err = s.Sub.Pull(ctx, &pubsubpb.PullRequest{Subscription: "projects/p/subscriptions/s", MaxMessages: 10, ReturnImmediately: true})
	if err != nil || len(r.ReceivedMessages) != 0 {
		t.Fatalf("pull2: %v %v", r, err)
	}
	sut.Advance(1200 * time.Millisecond)
	r, err = s.Sub.Pull(ctx, &pubsubpb.PullRequest{Subscription: "projects/p/subscriptions/s", MaxMessages: 10, ReturnImmediately: true})
	if err != nil || len(r.ReceivedMessages) != 1 || r.ReceivedMessages[0].DeliveryAttempt != 2 {
		t.Fatalf("pull3: %v %v", r, err)
	}
	d, _ := s.Dump()
	t.Log("\n" + d)
}
