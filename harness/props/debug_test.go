package props

import (
	"encoding/json"
	"fmt"
	"os"
	"strings"
	"testing"

	"verif/hist"
	"verif/sut"
)

// TestDebugReplay prints the trace, model summary and delivery rows of a
// saved history (development aid; VERIF_REPLAY=file).
func TestDebugReplay(t *testing.T) {
	p := os.Getenv("VERIF_REPLAY")
	if p == "" {
		t.Skip()
	}
	b, _ := os.ReadFile(p)
	var d struct {
		Case histCase `json:"case"`
	}
	if err := json.Unmarshal(b, &d); err != nil {
		t.Fatal(err)
	}
	s := getSUT(t)
	defer closeSUT()
	_ = s.Reset(d.Case.Seed, true)
	r := hist.NewRunner(s, d.Case.Armed...)
	dump := func() {
		now := sut.Now()
		for _, ms := range r.M.LiveSubs() {
			fmt.Printf("   sub %s:\n%s", ms.Name, r.M.Summary(ms, now))
		}
		rows, _ := s.Raw.Query("select m.payload, d.attempts, d.attempt_at, d.completed_at is not null, d.not_before_id is not null from deliveries d join messages m on m.id=d.message_id order by d.published_at")
		for rows.Next() {
			var pl, at string
			var n int
			var c, nb bool
			rows.Scan(&pl, &n, &at, &c, &nb)
			fmt.Printf("   row %s attempts=%d attempt_at=%s completed=%v notbefore=%v\n", pl, n, at, c, nb)
		}
		rows.Close()
	}
	for i, op := range d.Case.Ops {
		ok := r.Step(op)
		fmt.Printf("step %d %s -> %+v ok=%v\n", i, op, r.Trace[max(0, len(r.Trace)-1)], ok)
		if os.Getenv("VERIF_DEBUG") == "2" {
			dump()
		}
	}
	dump()
	if d.Case.Drain && r.Viol == nil {
		n := len(r.Ops)
		r.Drain(80)
		for i := n; i < len(r.Ops); i++ {
			fmt.Printf("drain %d %s\n", i, r.Ops[i])
		}
		for _, te := range r.Trace {
			if te.Op >= n {
				fmt.Printf("drain-trace %+v\n", te)
			}
		}
		for k, v := range r.M.C {
			if strings.Contains(k, "learned") || strings.Contains(k, "not-judged") {
				fmt.Printf("counter %s=%d\n", k, v)
			}
		}
		dump()
	}
	fmt.Printf("viol=%v diverged=%q\n", r.Viol, r.Diverged)
}
