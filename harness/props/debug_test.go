package props

import (
	"encoding/json"
	"fmt"
	"os"
	"strings"
	"testing"

	"verif/hist"
	"verif/sut"
)

// TestDebugReplay prints the trace, model summary and delivery rows of a
// saved history (development aid; VERIF_REPLAY=file).
func TestDebugReplay(t *testing.T) {
	p := os.Getenv("VERIF_REPLAY")
	if p == "" {
		t.Skip()
	}
	b, _ := os.ReadFile(p)
	var d struct {
		Case histCase `json:"case"`
	}
	if err := json.Unmarshal(b, &d); err != nil {
		t.Fatal(err)
	}
	s := getSUT(t)
	defer closeSUT()
	_ = s.Reset(d.Case.Seed, true)
	r := hist.NewRunner(s, d.Case.Armed...)
	dump := func() {
		now := sut.Now()
		for _, ms := range r.M.LiveSubs() {
			fmt.Printf("   sub %s:\n%s", ms.Name, r.M.Summary(ms, now))
		}
		rows, _ := s.Raw.Query("select m.payload, d.attempts, d.attempt_at, d.completed_at is not null, d.not_before_id is not null from deliveries d join messages m on m.id=d.message_id order by d.published_at")
		for rows.Next() {
			var pl, at string
			var n int
			var c, nb bool
			rows.Scan(&pl, &n, &at, &c, &nb)
			fmt.Printf("   row %s attempts=%d attempt_at=%s completed=%v notbefore=%v\n", pl, n, at, c, nb)
		}
		rows.Close()
		rows2, _ := s.Raw.Query("select m.payload, d.expires_at, coalesce(nb.completed_at,'-'), coalesce(nb.expires_at,'-'), coalesce(nbm.payload,'-'), d.subscription_id = coalesce(nb.subscription_id,d.subscription_id) from deliveries d join messages m on m.id=d.message_id left join deliveries nb on nb.id=d.not_before_id left join messages nbm on nbm.id=nb.message_id where d.completed_at is null order by d.published_at")
		for rows2 != nil && rows2.Next() {
			var pl, ex, nc, ne, np string
			var same bool
			rows2.Scan(&pl, &ex, &nc, &ne, &np, &same)
			fmt.Printf("   open %s expires=%s notbefore={msg %s completed=%s expires=%s samesub=%v}\n", pl, ex, np, nc, ne, same)
		}
		if rows2 != nil {
			rows2.Close()
		}
	}
	for i, op := range d.Case.Ops {
		ok := r.Step(op)
		fmt.Printf("step %d %s -> %+v ok=%v\n", i, op, r.Trace[max(0, len(r.Trace)-1)], ok)
		if os.Getenv("VERIF_DEBUG") == "2" {
			dump()
		}
	}
	dump()
	if d.Case.Drain && r.Viol == nil {
		n := len(r.Ops)
		r.Drain(80)
		for i := n; i < len(r.Ops); i++ {
			fmt.Printf("drain %d %s\n", i, r.Ops[i])
		}
		for _, te := range r.Trace {
			if te.Op >= n {
				fmt.Printf("drain-trace %+v\n", te)
			}
		}
		for k, v := range r.M.C {
			if strings.Contains(k, "learned") || strings.Contains(k, "not-judged") {
				fmt.Printf("counter %s=%d\n", k, v)
			}
		}
		dump()
	}
	fmt.Printf("viol=%v diverged=%q\n", r.Viol, r.Diverged)
}

// TestDebugPair prints the traces of a C15 prune pair (with / without jobs).
func TestDebugPair(t *testing.T) {
	p := os.Getenv("VERIF_REPLAY")
	if p == "" {
		t.Skip()
	}
	b, _ := os.ReadFile(p)
	var d struct {
		Case c15Case `json:"case"`
	}
	if err := json.Unmarshal(b, &d); err != nil {
		t.Fatal(err)
	}
	s := getSUT(t)
	defer closeSUT()
	dump := func(tag string) {
		rows, _ := s.Raw.Query("select m.payload, s.name, d.attempts, d.attempt_at, d.expires_at, d.completed_at is not null, coalesce(nbm.payload,'-'), coalesce(nb.completed_at,'-') from deliveries d join messages m on m.id=d.message_id join subscriptions s on s.id=d.subscription_id left join deliveries nb on nb.id=d.not_before_id left join messages nbm on nbm.id=nb.message_id order by s.name, d.published_at")
		for rows != nil && rows.Next() {
			var pl, sn, at, ex, np, nc string
			var n int
			var c bool
			rows.Scan(&pl, &sn, &n, &at, &ex, &c, &np, &nc)
			fmt.Printf("   %s row %s on %s attempts=%d attempt_at=%s expires=%s completed=%v notbefore={%s completed=%s}\n", tag, pl, sn, n, at, ex, c, np, nc)
		}
		if rows != nil {
			rows.Close()
		}
	}
	r2 := hist.Replay(s, d.Case.Ops, d.Case.Seed, "NONE")
	for _, te := range r2.Trace {
		fmt.Printf("with    %+v  %s\n", te, d.Case.Ops[te.Op])
	}
	dump("with")
	r1 := hist.Replay(s, withoutJobs(d.Case.Ops), d.Case.Seed, "NONE")
	wo := withoutJobs(d.Case.Ops)
	for _, te := range r1.Trace {
		fmt.Printf("without %+v  %s\n", te, wo[te.Op])
	}
	dump("without")
}
