package props

import (
	"context"
	"encoding/json"
	"fmt"
	"regexp"
	"sort"
	"strings"
	"testing"
	"time"

	"cloud.google.com/go/pubsub/apiv1/pubsubpb"
	"github.com/google/uuid"
	"google.golang.org/grpc/codes"
	"google.golang.org/grpc/status"
	"google.golang.org/protobuf/types/known/durationpb"
	"google.golang.org/protobuf/types/known/fieldmaskpb"
	"google.golang.org/protobuf/types/known/timestamppb"
	"pgregory.net/rapid"

	"go.6river.tech/mmmbbb/actions"

	"verif/hist"
	"verif/stats"
	"verif/sut"
)

// ---------------------------------------------------------------- state

// c09Params are the rapid-drawn variations of the populated state.
type c09Params struct {
	NMsgs    int  `json:"nmsgs"`
	Ordered  bool `json:"ordered"`
	AckFirst bool `json:"ack_first"`
	DLSubs   int  `json:"dl_subs"`
	Keys     bool `json:"keys"`
	Filter   bool `json:"filter"`
}

type c09State struct {
	snap     *sut.TableSnapshot
	dump     string
	at       time.Time
	liveAck  []string // outstanding on s1
	dlAck    string   // on s2, attempts >= N, lease lapsed: due for dead-lettering
	ackedAck string
	subIDs   []uuid.UUID
	pubTime  time.Time
}

const (
	c9T1, c9T2, c9T3 = "projects/p/topics/t1", "projects/p/topics/t2", "projects/p/topics/t3"
	c9S1, c9S2, c9S3 = "projects/p/subscriptions/s1", "projects/p/subscriptions/s2", "projects/p/subscriptions/s3"
	c9S4, c9Sdel     = "projects/p/subscriptions/s4", "projects/p/subscriptions/sdel"
	c9N1             = "projects/p/snapshots/n1"
)

func buildC09State(ctx context.Context, s *sut.SUT, p c09Params) (*c09State, error) {
	st := &c09State{}
	must := func(err error) {
		if err != nil {
			panic(fmt.Errorf("c09 setup: %w", err))
		}
	}
	var reterr error
	func() {
		defer func() {
			if r := recover(); r != nil {
				reterr = fmt.Errorf("%v", r)
			}
		}()
		for _, t := range []string{c9T1, c9T2, c9T3} {
			_, err := s.Pub.CreateTopic(ctx, &pubsubpb.Topic{Name: t})
			must(err)
		}
		_, err := s.Sub.CreateSubscription(ctx, &pubsubpb.Subscription{Name: c9S1, Topic: c9T1, EnableMessageOrdering: p.Ordered})
		must(err)
		s2 := &pubsubpb.Subscription{Name: c9S2, Topic: c9T1, EnableMessageOrdering: p.Ordered,
			DeadLetterPolicy: &pubsubpb.DeadLetterPolicy{DeadLetterTopic: c9T2, MaxDeliveryAttempts: 1},
			RetryPolicy:      &pubsubpb.RetryPolicy{MinimumBackoff: durationpb.New(100 * time.Millisecond)}}
		_, err = s.Sub.CreateSubscription(ctx, s2)
		must(err)
		for i := 0; i < p.DLSubs; i++ {
			f := ""
			if p.Filter && i == 0 {
				f = `attributes:x`
			}
			_, err = s.Sub.CreateSubscription(ctx, &pubsubpb.Subscription{Name: fmt.Sprintf("%s-%d", c9S3, i), Topic: c9T2, Filter: f, EnableMessageOrdering: p.Ordered})
			must(err)
		}
		_, err = s.Sub.CreateSubscription(ctx, &pubsubpb.Subscription{Name: c9S4, Topic: c9T1, MessageRetentionDuration: durationpb.New(10 * time.Minute)})
		must(err)
		_, err = s.Sub.CreateSubscription(ctx, &pubsubpb.Subscription{Name: c9Sdel, Topic: c9T3})
		must(err)
		req := &pubsubpb.PublishRequest{Topic: c9T1}
		for i := 0; i < p.NMsgs; i++ {
			m := &pubsubpb.PubsubMessage{Data: []byte(fmt.Sprintf(`{"i":%d}`, i)), Attributes: map[string]string{"x": fmt.Sprint(i)}}
			if p.Keys {
				m.OrderingKey = []string{"k1", "k2"}[i%2]
			}
			req.Messages = append(req.Messages, m)
		}
		_, err = s.Pub.Publish(ctx, req)
		must(err)
		_, err = s.Pub.Publish(ctx, &pubsubpb.PublishRequest{Topic: c9T3, Messages: []*pubsubpb.PubsubMessage{{Data: []byte(`1`)}}})
		must(err)
		st.pubTime = sut.Now()
		sut.Advance(time.Second)
		r1, err := s.Sub.Pull(ctx, &pubsubpb.PullRequest{Subscription: c9S1, MaxMessages: 10, ReturnImmediately: true})
		must(err)
		for _, m := range r1.ReceivedMessages {
			st.liveAck = append(st.liveAck, m.AckId)
		}
		if len(st.liveAck) == 0 {
			panic("no deliveries on s1")
		}
		if p.AckFirst {
			st.ackedAck = st.liveAck[0]
			st.liveAck = st.liveAck[1:]
			_, err = s.Sub.Acknowledge(ctx, &pubsubpb.AcknowledgeRequest{Subscription: c9S1, AckIds: []string{st.ackedAck}})
			must(err)
		}
		r2, err := s.Sub.Pull(ctx, &pubsubpb.PullRequest{Subscription: c9S2, MaxMessages: 1, ReturnImmediately: true})
		must(err)
		if len(r2.ReceivedMessages) != 1 {
			panic("no delivery on s2")
		}
		st.dlAck = r2.ReceivedMessages[0].AckId
		_, err = s.Sub.CreateSnapshot(ctx, &pubsubpb.CreateSnapshotRequest{Name: c9N1, Subscription: c9S1})
		must(err)
		_, err = s.Sub.DeleteSubscription(ctx, &pubsubpb.DeleteSubscriptionRequest{Subscription: c9Sdel})
		must(err)
		_, err = s.Pub.DeleteTopic(ctx, &pubsubpb.DeleteTopicRequest{Topic: c9T3})
		must(err)
		// let s4's retention (10 min) and every lease lapse
		sut.Advance(11 * time.Minute)
	}()
	if reterr != nil {
		return nil, reterr
	}
	var err error
	if st.snap, err = s.Snapshot(); err != nil {
		return nil, err
	}
	if st.dump, err = s.Dump(); err != nil {
		return nil, err
	}
	// whole second: an operation reads the clock far less than 1000 times
	// (1 us per read), so truncating timestamps to milliseconds makes two runs
	// that differ only in the number of clock reads comparable
	st.at = sut.Now().Truncate(time.Second).Add(time.Second)
	rows, err := s.Raw.Query("SELECT id FROM subscriptions")
	if err != nil {
		return nil, err
	}
	defer rows.Close()
	for rows.Next() {
		var id string
		if rows.Scan(&id) == nil {
			if u, err := uuid.Parse(id); err == nil {
				st.subIDs = append(st.subIDs, u)
			}
		}
	}
	return st, nil
}

// ---------------------------------------------------------------- operations

type c09Op struct {
	Name    string
	Retries bool // wrapped in DoCtxTxRetry(DeadlockDetected)
	Pull    bool // may refresh subscriptions.expires_at in a separate, earlier transaction
	Run     func(ctx context.Context, s *sut.SUT, st *c09State) error
}

func uu(ids ...string) []uuid.UUID {
	var out []uuid.UUID
	for _, s := range ids {
		if u, err := uuid.Parse(s); err == nil {
			out = append(out, u)
		}
	}
	return out
}

func jobOp(kind string) c09Op {
	return c09Op{Name: "job/" + kind, Run: func(ctx context.Context, s *sut.SUT, st *c09State) error {
		_, err := hist.RunJob(ctx, s, kind, 0, 100)
		return err
	}}
}

func c09Ops() []c09Op {
	ops := []c09Op{
		{Name: "publish-1", Run: func(ctx context.Context, s *sut.SUT, st *c09State) error {
			_, e := s.Pub.Publish(ctx, &pubsubpb.PublishRequest{Topic: c9T1, Messages: []*pubsubpb.PubsubMessage{{Data: []byte(`{"n":1}`), Attributes: map[string]string{"x": "1"}, OrderingKey: "k1"}}})
			return e
		}},
		{Name: "publish-3", Run: func(ctx context.Context, s *sut.SUT, st *c09State) error {
			_, e := s.Pub.Publish(ctx, &pubsubpb.PublishRequest{Topic: c9T1, Messages: []*pubsubpb.PubsubMessage{
				{Data: []byte(`{"n":1}`), OrderingKey: "k1"}, {Data: []byte(`{"n":2}`), Attributes: map[string]string{"x": "1"}}, {Data: []byte(`{"n":3}`), OrderingKey: "k1"}}})
			return e
		}},
		{Name: "create-topic", Run: func(ctx context.Context, s *sut.SUT, st *c09State) error {
			_, e := s.Pub.CreateTopic(ctx, &pubsubpb.Topic{Name: "projects/p/topics/new", Labels: map[string]string{"a": "b"}})
			return e
		}},
		{Name: "delete-topic", Run: func(ctx context.Context, s *sut.SUT, st *c09State) error {
			_, e := s.Pub.DeleteTopic(ctx, &pubsubpb.DeleteTopicRequest{Topic: c9T1})
			return e
		}},
		{Name: "update-topic", Run: func(ctx context.Context, s *sut.SUT, st *c09State) error {
			_, e := s.Pub.UpdateTopic(ctx, &pubsubpb.UpdateTopicRequest{Topic: &pubsubpb.Topic{Name: c9T1, Labels: map[string]string{"l": "1"}}, UpdateMask: &fieldmaskpb.FieldMask{Paths: []string{"labels"}}})
			return e
		}},
		{Name: "create-subscription", Run: func(ctx context.Context, s *sut.SUT, st *c09State) error {
			_, e := s.Sub.CreateSubscription(ctx, &pubsubpb.Subscription{Name: "projects/p/subscriptions/new", Topic: c9T1, Filter: `attributes:x`,
				DeadLetterPolicy: &pubsubpb.DeadLetterPolicy{DeadLetterTopic: c9T2, MaxDeliveryAttempts: 3}})
			return e
		}},
		{Name: "delete-subscription", Run: func(ctx context.Context, s *sut.SUT, st *c09State) error {
			_, e := s.Sub.DeleteSubscription(ctx, &pubsubpb.DeleteSubscriptionRequest{Subscription: c9S1})
			return e
		}},
		{Name: "update-subscription", Run: func(ctx context.Context, s *sut.SUT, st *c09State) error {
			_, e := s.Sub.UpdateSubscription(ctx, &pubsubpb.UpdateSubscriptionRequest{
				Subscription: &pubsubpb.Subscription{Name: c9S1, Labels: map[string]string{"l": "1"}, RetryPolicy: &pubsubpb.RetryPolicy{MinimumBackoff: durationpb.New(3 * time.Second)},
					DeadLetterPolicy: &pubsubpb.DeadLetterPolicy{DeadLetterTopic: c9T2, MaxDeliveryAttempts: 4}, Filter: `attributes:y`},
				UpdateMask: &fieldmaskpb.FieldMask{Paths: []string{"labels", "retry_policy", "dead_letter_policy", "filter"}}})
			return e
		}},
		{Name: "modify-push-config", Run: func(ctx context.Context, s *sut.SUT, st *c09State) error {
			_, e := s.Sub.ModifyPushConfig(ctx, &pubsubpb.ModifyPushConfigRequest{Subscription: c9S4, PushConfig: &pubsubpb.PushConfig{PushEndpoint: "http://127.0.0.1:9/x"}})
			return e
		}},
		{Name: "acknowledge", Retries: true, Run: func(ctx context.Context, s *sut.SUT, st *c09State) error {
			_, e := s.Sub.Acknowledge(ctx, &pubsubpb.AcknowledgeRequest{Subscription: c9S1, AckIds: append([]string{st.dlAck}, st.liveAck...)})
			return e
		}},
		{Name: "modack-positive", Retries: true, Run: func(ctx context.Context, s *sut.SUT, st *c09State) error {
			_, e := s.Sub.ModifyAckDeadline(ctx, &pubsubpb.ModifyAckDeadlineRequest{Subscription: c9S1, AckIds: st.liveAck, AckDeadlineSeconds: 30})
			return e
		}},
		{Name: "modack-zero", Retries: true, Run: func(ctx context.Context, s *sut.SUT, st *c09State) error {
			_, e := s.Sub.ModifyAckDeadline(ctx, &pubsubpb.ModifyAckDeadlineRequest{Subscription: c9S1, AckIds: append([]string{st.dlAck}, st.liveAck...), AckDeadlineSeconds: 0})
			return e
		}},
		{Name: "pull", Retries: true, Pull: true, Run: func(ctx context.Context, s *sut.SUT, st *c09State) error {
			_, e := s.Sub.Pull(ctx, &pubsubpb.PullRequest{Subscription: c9S1, MaxMessages: 10, ReturnImmediately: true})
			return e
		}},
		{Name: "pull-that-dead-letters", Retries: true, Pull: true, Run: func(ctx context.Context, s *sut.SUT, st *c09State) error {
			_, e := s.Sub.Pull(ctx, &pubsubpb.PullRequest{Subscription: c9S2, MaxMessages: 10, ReturnImmediately: true})
			return e
		}},
		{Name: "stream-ack+nack", Run: func(ctx context.Context, s *sut.SUT, st *c09State) error {
			n := st.liveAck
			return actions.VerifAcksNacks(ctx, s.Client, uu(n[0]), uu(append([]string{st.dlAck}, n[1:]...)...))
		}},
		{Name: "stream-nack-that-dead-letters", Run: func(ctx context.Context, s *sut.SUT, st *c09State) error {
			return actions.VerifAcksNacks(ctx, s.Client, nil, uu(st.dlAck))
		}},
		{Name: "stream-modify-deadline", Run: func(ctx context.Context, s *sut.SUT, st *c09State) error {
			return actions.VerifDelay(ctx, s.Client, uu(st.liveAck...), 0)
		}},
		{Name: "seek-time", Retries: true, Run: func(ctx context.Context, s *sut.SUT, st *c09State) error {
			// between the publish and now: acks what is outstanding before, revives nothing; use a time before publish to revive
			_, e := s.Sub.Seek(ctx, &pubsubpb.SeekRequest{Subscription: c9S1, Target: &pubsubpb.SeekRequest_Time{Time: timestamppb.New(st.pubTime.Add(-time.Minute))}})
			return e
		}},
		{Name: "seek-time-forward", Retries: true, Run: func(ctx context.Context, s *sut.SUT, st *c09State) error {
			_, e := s.Sub.Seek(ctx, &pubsubpb.SeekRequest{Subscription: c9S1, Target: &pubsubpb.SeekRequest_Time{Time: timestamppb.New(st.at.Add(time.Hour))}})
			return e
		}},
		{Name: "seek-snapshot", Retries: true, Run: func(ctx context.Context, s *sut.SUT, st *c09State) error {
			_, e := s.Sub.Seek(ctx, &pubsubpb.SeekRequest{Subscription: c9S2, Target: &pubsubpb.SeekRequest_Snapshot{Snapshot: c9N1}})
			return e
		}},
		{Name: "create-snapshot", Run: func(ctx context.Context, s *sut.SUT, st *c09State) error {
			_, e := s.Sub.CreateSnapshot(ctx, &pubsubpb.CreateSnapshotRequest{Name: "projects/p/snapshots/new", Subscription: c9S1})
			return e
		}},
		{Name: "delete-snapshot", Run: func(ctx context.Context, s *sut.SUT, st *c09State) error {
			_, e := s.Sub.DeleteSnapshot(ctx, &pubsubpb.DeleteSnapshotRequest{Snapshot: c9N1})
			return e
		}},
		{Name: "dead-letter-sweep", Run: func(ctx context.Context, s *sut.SUT, st *c09State) error {
			a := actions.NewDeadLetterDeliveries(actions.DeadLetterDeliveriesParams{MaxDeliveries: 100})
			return s.Client.DoCtxTx(ctx, nil, a.Execute)
		}},
	}
	for _, k := range append(append([]string{}, hist.JobKinds...), "expired-subscriptions") {
		ops = append(ops, jobOp(k))
	}
	return ops
}

// ---------------------------------------------------------------- engine

type c09Case struct {
	Kind   string    `json:"kind"` // "fault"
	Params c09Params `json:"params"`
	Op     string    `json:"op"`
	K      int       `json:"k"`
	Mode   string    `json:"mode"`
	Seed   int64     `json:"seed"`
}

type wakeWatch struct {
	pubs []actions.PublishNotifier
	ids  []uuid.UUID
	anyS actions.AnySubModifiedNotifier
	anyT actions.AnyTopicModifiedNotifier
}

func watchWakes(st *c09State) *wakeWatch {
	w := &wakeWatch{ids: st.subIDs, anyS: actions.AnySubModifiedAwaiter(), anyT: actions.AnyTopicModifiedAwaiter()}
	for _, id := range st.subIDs {
		w.pubs = append(w.pubs, actions.PublishAwaiter(id))
	}
	return w
}

func (w *wakeWatch) fired() []string {
	var out []string
	for i, c := range w.pubs {
		select {
		case <-c:
			out = append(out, "publish-notify:"+w.ids[i].String())
		default:
		}
	}
	select {
	case <-w.anyS:
		out = append(out, "any-subscription-modified")
	default:
	}
	select {
	case <-w.anyT:
		out = append(out, "any-topic-modified")
	default:
	}
	return out
}

func (w *wakeWatch) cancel() {
	for i, c := range w.pubs {
		actions.CancelPublishAwaiter(w.ids[i], c)
	}
	actions.CancelAnySubModifiedAwaiter(w.anyS)
	actions.CancelAnyTopicModifiedAwaiter(w.anyT)
}

// prepare puts the SUT back into the saved state with the clock and UUID
// source at fixed points, so that two runs of one operation are comparable
// byte for byte.
func (st *c09State) prepare(s *sut.SUT, sd int64) error {
	if err := s.Restore(st.snap); err != nil {
		return err
	}
	actions.WakeAllInternal()
	sut.SetVirtual(st.at)
	sut.SeedUUIDs(sd + 7777)
	s.TakePanics()
	return nil
}

func runGuarded(ctx context.Context, s *sut.SUT, st *c09State, op c09Op) (err error) {
	ctx, cancel := context.WithCancel(ctx)
	defer cancel()
	sut.TheGate.SetCancel(cancel)
	defer sut.TheGate.SetCancel(nil)
	defer func() {
		if r := recover(); r != nil {
			err = fmt.Errorf("panic: %v", r)
		}
	}()
	return op.Run(ctx, s, st)
}

// created_at of topics and subscriptions comes from ent's default (the real
// clock, outside the instrumented packages): not comparable between runs.
var c09Skip = []string{"topics.created_at", "subscriptions.created_at"}

func dumpC09(s *sut.SUT, pull bool) string {
	skip := c09Skip
	if pull {
		skip = append(append([]string{}, skip...), "subscriptions.expires_at")
	}
	d, _ := s.Dump(skip...)
	return d
}

// checkFault runs one (operation, k, mode) and applies the C09 oracle.
// dOK / dOKpull are the dumps after the fault-free run.
func checkFault(ctx context.Context, s *sut.SUT, st *c09State, op c09Op, k int, mode string, sd int64, dOK string) (rule, detail string, ev sut.Event, fired bool) {
	if err := st.prepare(s, sd); err != nil {
		return "harness", "prepare: " + err.Error(), ev, false
	}
	pre := dumpC09(s, op.Pull)
	w := watchWakes(st)
	fm := map[string]sut.FaultMode{"error": sut.FaultError, "cancel": sut.FaultCancel, "cancel-after": sut.FaultCancelAfter, "deadlock-once": sut.FaultDeadlockOnce}[mode]
	sut.TheGate.Arm(fm, k)
	err := runGuarded(ctx, s, st, op)
	_, fired, ev = sut.TheGate.Disarm()
	woke := w.fired()
	w.cancel()
	if !fired {
		return "", "", ev, false
	}
	after := dumpC09(s, op.Pull)
	where := fmt.Sprintf("%s with %s at event %d (%s %.60q)", op.Name, mode, k, ev.Kind, ev.Query)
	switch mode {
	case "deadlock-once":
		if err != nil {
			return "retry-failed", fmt.Sprintf("%s: a transient deadlock error is retried by the handler, but the request failed: %v", where, err), ev, true
		}
		full := dumpC09(s, false)
		if !retryEquivalent(full, dOK, pre) {
			return "retry-differs", fmt.Sprintf("%s: after the handler's own retry the stored state differs from a fault-free run:\n%s", where, diffLines(dOK, full)), ev, true
		}
		return "", "", ev, true
	case "cancel-after":
		// the statement before the cancellation completed; whether the operation
		// as a whole did is the implementation's call, but it is all or nothing
		// and the report must agree with it
		full := dumpC09(s, false)
		if after != pre && full != dOK {
			return "half-applied", fmt.Sprintf("%s: state is neither the old nor the new one:\n%s", where, diffLines(pre, after)), ev, true
		}
		if after == pre && err == nil && pre != dumpOKFor(op, dOK, s) {
			return "lost-but-ok", fmt.Sprintf("%s: reported success but nothing was stored", where), ev, true
		}
		if err == nil || after != pre {
			return "", "", ev, true
		}
		// failed and unchanged: the common checks (no wake-up, retry) follow
	case "cancel":
		if ev.Kind == "commit" {
			full := dumpC09(s, false)
			if after != pre && full != dOK {
				return "half-applied", fmt.Sprintf("%s: state is neither the old nor the new one:\n%s", where, diffLines(pre, after)), ev, true
			}
			if after == pre && err == nil && pre != dumpOKFor(op, dOK, s) {
				return "lost-but-ok", fmt.Sprintf("%s: reported success but nothing was stored", where), ev, true
			}
			return "", "", ev, true
		}
	}
	if err == nil {
		return "no-error", fmt.Sprintf("%s: the operation reported success although a statement failed", where), ev, true
	}
	if after != pre {
		return "not-atomic", fmt.Sprintf("%s: the operation failed (%v) but changed the stored state:\n%s", where, err, diffLines(pre, after)), ev, true
	}
	if len(woke) > 0 {
		return "woke-without-commit", fmt.Sprintf("%s: the operation failed (%v) but waiting consumers were notified: %v", where, err, woke), ev, true
	}
	// retry from the same clock / UUID state
	sut.SetVirtual(st.at)
	sut.SeedUUIDs(sd + 7777)
	if err := runGuarded(ctx, s, st, op); err != nil {
		return "retry-failed", fmt.Sprintf("%s: retrying the operation afterwards failed: %v", where, err), ev, true
	}
	full := dumpC09(s, false)
	if op.Pull {
		// the failed attempt may have refreshed expires_at at its own (later) time
		full = dumpC09(s, true)
		d2 := stripExpires(dOK)
		if full != d2 {
			return "retry-differs", fmt.Sprintf("%s: retry result differs from a fault-free run:\n%s", where, diffLines(d2, full)), ev, true
		}
		return "", "", ev, true
	}
	if full != dOK {
		return "retry-differs", fmt.Sprintf("%s: retry result differs from a fault-free run:\n%s", where, diffLines(dOK, full)), ev, true
	}
	return "", "", ev, true
}

var tsRe = regexp.MustCompile(`(\d{4}-\d\d-\d\dT\d\d:\d\d:\d\d)(\.\d+)?Z`)

// msTrunc truncates every timestamp of a dump to milliseconds (the handler's
// internal retry re-reads the clock, a few microsecond ticks later).
func msTrunc(d string) string {
	return tsRe.ReplaceAllStringFunc(d, func(m string) string {
		sm := tsRe.FindStringSubmatch(m)
		frac := sm[2]
		if len(frac) > 4 {
			frac = frac[:4]
		}
		return sm[1] + frac + "Z"
	})
}

var uuidRe = regexp.MustCompile(`[0-9a-f]{8}-[0-9a-f]{4}-[0-9a-f]{4}-[0-9a-f]{4}-[0-9a-f]{12}`)

// normRetry makes the dump after a handler-internal retry comparable with a
// fault-free run: the first attempt consumed clock ticks and UUIDs, so
// timestamps are truncated to milliseconds and ids that did not exist before
// the operation are anonymised; lines are re-sorted.
func normRetry(d, pre string) string {
	old := map[string]bool{}
	for _, u := range uuidRe.FindAllString(pre, -1) {
		old[u] = true
	}
	d = uuidRe.ReplaceAllStringFunc(msTrunc(d), func(u string) string {
		if old[u] {
			return u
		}
		return "<new-id>"
	})
	lines := strings.Split(d, "\n")
	sort.Strings(lines)
	return strings.Join(lines, "\n")
}

// retryEquivalent compares the dump after a handler-internal retry with the
// fault-free one: same rows once new ids are anonymised, and every timestamp
// within 1 ms (the first attempt consumed a few microsecond clock ticks).
func retryEquivalent(a, b, pre string) bool {
	old := map[string]bool{}
	for _, u := range uuidRe.FindAllString(pre, -1) {
		old[u] = true
	}
	type row struct {
		shape string
		ts    []time.Time
	}
	parse := func(d string) []row {
		var rows []row
		for _, l := range strings.Split(d, "\n") {
			l = uuidRe.ReplaceAllStringFunc(l, func(u string) string {
				if old[u] {
					return u
				}
				return "<new-id>"
			})
			var ts []time.Time
			shape := tsRe.ReplaceAllStringFunc(l, func(m string) string {
				t, err := time.Parse(time.RFC3339Nano, m)
				if err == nil {
					ts = append(ts, t)
				}
				return "<ts>"
			})
			rows = append(rows, row{shape, ts})
		}
		sort.SliceStable(rows, func(i, j int) bool {
			if rows[i].shape != rows[j].shape {
				return rows[i].shape < rows[j].shape
			}
			for k := range rows[i].ts {
				if k < len(rows[j].ts) && !rows[i].ts[k].Equal(rows[j].ts[k]) {
					return rows[i].ts[k].Before(rows[j].ts[k])
				}
			}
			return false
		})
		return rows
	}
	ra, rb := parse(a), parse(b)
	if len(ra) != len(rb) {
		return false
	}
	for i := range ra {
		if ra[i].shape != rb[i].shape || len(ra[i].ts) != len(rb[i].ts) {
			return false
		}
		for k := range ra[i].ts {
			d := ra[i].ts[k].Sub(rb[i].ts[k])
			if d < -time.Millisecond || d > time.Millisecond {
				return false
			}
		}
	}
	return true
}

func dumpOKFor(op c09Op, dOK string, s *sut.SUT) string {
	if op.Pull {
		return stripExpires(dOK)
	}
	return dOK
}

// stripExpires removes the subscriptions.expires_at column from a full dump.
func stripExpires(d string) string {
	var out []string
	inSubs := false
	for _, l := range strings.Split(d, "\n") {
		if strings.HasPrefix(l, "## ") {
			inSubs = strings.HasPrefix(l, "## subscriptions")
		}
		if inSubs && !strings.HasPrefix(l, "## ") {
			parts := strings.Split(l, " ")
			var keep []string
			for _, p := range parts {
				if !strings.HasPrefix(p, "expires_at=") {
					keep = append(keep, p)
				}
			}
			l = strings.Join(keep, " ")
		}
		out = append(out, l)
	}
	return strings.Join(out, "\n")
}

func drawC09Params(rt *rapid.T) c09Params {
	return c09Params{NMsgs: rapid.IntRange(2, 4).Draw(rt, "nmsgs"), Ordered: rapid.Bool().Draw(rt, "ordered"), AckFirst: rapid.Bool().Draw(rt, "ackfirst"),
		DLSubs: rapid.IntRange(0, 2).Draw(rt, "dlsubs"), Keys: rapid.Bool().Draw(rt, "keys"), Filter: rapid.Bool().Draw(rt, "filter")}
}

// enumerate runs every operation at every fault position for one state.
func enumerateC09(ctx context.Context, s *sut.SUT, p c09Params, sd int64, onFail func(c09Case, string, string, sut.Event) bool) error {
	if err := s.Reset(sd, true); err != nil {
		return err
	}
	st, err := buildC09State(ctx, s, p)
	if err != nil {
		return err
	}
	for _, op := range c09Ops() {
		// fault-free run: learn the events and the resulting state
		if err := st.prepare(s, sd); err != nil {
			return err
		}
		sut.TheGate.Arm(sut.FaultNone, 0)
		err := runGuarded(ctx, s, st, op)
		events, _, _ := sut.TheGate.Disarm()
		if err != nil {
			stats.C.Class("op-skipped/"+op.Name, 1)
			stats.C.Note("operation %s fails without faults in this state: %v", op.Name, err)
			continue
		}
		dOK := dumpC09(s, false)
		stats.C.Class("events/"+op.Name, len(events))
		modes := []string{"error", "cancel", "cancel-after"}
		if op.Retries {
			modes = append(modes, "deadlock-once")
		}
		for k := 1; k <= len(events); k++ {
			for _, mode := range modes {
				cs := c09Case{Kind: "fault", Params: p, Op: op.Name, K: k, Mode: mode, Seed: sd}
				rule, detail, ev, fired := checkFault(ctx, s, st, op, k, mode, sd, dOK)
				if !fired && rule == "" {
					stats.C.Class("not-reached", 1)
					continue
				}
				// non-trivial: the faulted event is a write (or the commit) that follows an earlier write in the same transaction
				nt := false
				if ev.Write || ev.Kind == "commit" {
					for j := k - 2; j >= 0 && j < len(events); j-- {
						if events[j].Kind == "begin" {
							break
						}
						if events[j].Write {
							nt = true
						}
					}
				}
				stats.C.Eval(stats.Hash(cs), nt, func() any {
					return map[string]any{"operation": op.Name, "fault": mode, "event": k, "of": len(events), "statement": ev.Kind + " " + truncate(ev.Query, 90), "state": p}
				})
				stats.C.Class("mode/"+mode, 1)
				if rule != "" {
					if !onFail(cs, rule, detail, ev) {
						return nil
					}
				}
			}
		}
	}
	return nil
}

func truncate(s string, n int) string {
	if len(s) > n {
		return s[:n] + "..."
	}
	return s
}

func TestC09(t *testing.T) {
	defer reportFailure(t, "C09")
	s := getSUT(t)
	defer closeSUT()
	ctx := context.Background()
	rapid.Check(t, func(rt *rapid.T) {
		p := drawC09Params(rt)
		err := enumerateC09(ctx, s, p, seed(), func(cs c09Case, rule, detail string, ev sut.Event) bool {
			failWith(rt, failure{Rule: rule, Detail: detail, Sig: map[string]any{"op": cs.Op, "mode": cs.Mode, "event_kind": ev.Kind}, Replay: cs})
			return false
		})
		if err != nil {
			rt.Fatalf("harness: %v", err)
		}
	})
	stats.C.Exhaustive = false
	ops := c09Ops()
	names := make([]string, len(ops))
	for i, o := range ops {
		names[i] = o.Name
	}
	sort.Strings(names)
	stats.C.Note("for every generated state, every event index k (BEGIN, each statement, COMMIT) of each of these %d operations was faulted in modes error, cancel (before the event) and cancel-after (right after a statement completed, so that the next statement or the COMMIT meets a transaction database/sql has already rolled back) (and deadlock-once for the retry-wrapped handlers): %s", len(ops), strings.Join(names, ", "))
}

func init() {
	replayers["fault"] = func(t *testing.T, prop string, raw json.RawMessage) {
		var cs c09Case
		if err := json.Unmarshal(raw, &cs); err != nil {
			t.Fatal(err)
		}
		s := getSUT(t)
		defer closeSUT()
		ctx := context.Background()
		if err := s.Reset(cs.Seed, true); err != nil {
			t.Fatal(err)
		}
		st, err := buildC09State(ctx, s, cs.Params)
		if err != nil {
			t.Fatal(err)
		}
		for _, op := range c09Ops() {
			if op.Name != cs.Op {
				continue
			}
			_ = st.prepare(s, cs.Seed)
			if err := runGuarded(ctx, s, st, op); err != nil {
				t.Fatalf("fault-free run fails: %v", err)
			}
			dOK := dumpC09(s, false)
			rule, detail, _, _ := checkFault(ctx, s, st, op, cs.K, cs.Mode, cs.Seed, dOK)
			if rule != "" {
				violate(t, prop, failure{Rule: rule, Detail: detail})
			}
		}
	}
}

var _ = status.Code
var _ = codes.OK
