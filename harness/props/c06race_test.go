package props

import (
	"context"
	"encoding/json"
	"fmt"
	"sync"
	"testing"
	"time"

	"cloud.google.com/go/pubsub/apiv1/pubsubpb"
	"github.com/google/uuid"
	"pgregory.net/rapid"

	"go.6river.tech/mmmbbb/actions"

	"verif/stats"
	"verif/sut"
)

// C06 "forwarded exactly once" when the three ways of retiring an exhausted
// delivery race each other for real (no schedule control): N messages have
// used up their single permitted attempt and are due again; at the same moment
// a pull on the source, the background sweep and a stream nack for the same
// deliveries are fired, some of them twice. Whoever wins, every message ends
// up exactly once on the dead-letter subscription and nowhere else; requests
// that fail (SQLite is a single writer) are not repeated - a failed request
// must not have forwarded anything.

type c06rCase struct {
	Kind    string `json:"kind"` // "dlrace"
	NMsgs   int    `json:"nmsgs"`
	Pulls   int    `json:"pulls"`
	Sweeps  int    `json:"sweeps"`
	Nacks   int    `json:"nacks"`
	Ordered bool   `json:"ordered"`
}

func runC06r(s *sut.SUT, cs c06rCase) (rule, detail string) {
	ctx := context.Background()
	if err := s.Reset(seed(), true); err != nil {
		return "harness", err.Error()
	}
	const src, dl, ssub, dsub = "projects/p/topics/rsrc", "projects/p/topics/rdl", "projects/p/subscriptions/rs", "projects/p/subscriptions/rd"
	for _, tp := range []string{src, dl} {
		if _, err := s.Pub.CreateTopic(ctx, &pubsubpb.Topic{Name: tp}); err != nil {
			return "harness", err.Error()
		}
	}
	if _, err := s.Sub.CreateSubscription(ctx, &pubsubpb.Subscription{Name: ssub, Topic: src, EnableMessageOrdering: cs.Ordered,
		DeadLetterPolicy: &pubsubpb.DeadLetterPolicy{DeadLetterTopic: dl, MaxDeliveryAttempts: 1}}); err != nil {
		return "harness", err.Error()
	}
	if _, err := s.Sub.CreateSubscription(ctx, &pubsubpb.Subscription{Name: dsub, Topic: dl}); err != nil {
		return "harness", err.Error()
	}
	req := &pubsubpb.PublishRequest{Topic: src}
	for i := 0; i < cs.NMsgs; i++ {
		m := &pubsubpb.PubsubMessage{Data: []byte(fmt.Sprintf(`{"i":%d}`, i))}
		if cs.Ordered {
			m.OrderingKey = fmt.Sprintf("k%d", i) // one key each: all are heads
		}
		req.Messages = append(req.Messages, m)
	}
	pr, err := s.Pub.Publish(ctx, req)
	if err != nil {
		return "harness", err.Error()
	}
	first, err := s.Sub.Pull(ctx, &pubsubpb.PullRequest{Subscription: ssub, MaxMessages: 1000, ReturnImmediately: true})
	if err != nil || len(first.ReceivedMessages) != cs.NMsgs {
		return "harness", fmt.Sprintf("first pull: %v, %d of %d", err, len(first.GetReceivedMessages()), cs.NMsgs)
	}
	var ackIDs []string
	var ids []uuid.UUID
	for _, rm := range first.ReceivedMessages {
		ackIDs = append(ackIDs, rm.AckId)
		ids = append(ids, uuid.MustParse(rm.AckId))
	}
	if _, err := s.Sub.ModifyAckDeadline(ctx, &pubsubpb.ModifyAckDeadlineRequest{Subscription: ssub, AckIds: ackIDs, AckDeadlineSeconds: 0}); err != nil {
		return "harness", err.Error()
	}
	sut.Advance(time.Second)
	// the race
	var wg sync.WaitGroup
	startc := make(chan struct{})
	var mu sync.Mutex
	fromSource := 0
	errs := 0
	fire := func(f func() error) {
		wg.Add(1)
		go func() {
			defer wg.Done()
			<-startc
			if err := f(); err != nil {
				mu.Lock()
				errs++
				mu.Unlock()
			}
		}()
	}
	for i := 0; i < cs.Pulls; i++ {
		fire(func() error {
			r, err := s.Sub.Pull(ctx, &pubsubpb.PullRequest{Subscription: ssub, MaxMessages: 1000, ReturnImmediately: true})
			if err == nil {
				mu.Lock()
				fromSource += len(r.ReceivedMessages)
				mu.Unlock()
			}
			return err
		})
	}
	for i := 0; i < cs.Sweeps; i++ {
		fire(func() error {
			a := actions.NewDeadLetterDeliveries(actions.DeadLetterDeliveriesParams{MaxDeliveries: 1000})
			return s.Client.DoCtxTx(ctx, nil, a.Execute)
		})
	}
	for i := 0; i < cs.Nacks; i++ {
		fire(func() error { return actions.VerifAcksNacks(ctx, s.Client, nil, ids) })
	}
	close(startc)
	wg.Wait()
	stats.C.Class("dlrace/failed-requests", errs)
	// whatever is left is retired by one more sweep (a failed request retired nothing)
	for try := 0; try < 20; try++ {
		a := actions.NewDeadLetterDeliveries(actions.DeadLetterDeliveriesParams{MaxDeliveries: 1000})
		if err := s.Client.DoCtxTx(ctx, nil, a.Execute); err == nil {
			break
		}
	}
	if fromSource > 0 {
		return "over-max-attempts", fmt.Sprintf("%d messages were delivered a second time on the source subscription although max_delivery_attempts is 1", fromSource)
	}
	seen := map[string]int{}
	for round := 0; round < 5; round++ {
		r, err := s.Sub.Pull(ctx, &pubsubpb.PullRequest{Subscription: dsub, MaxMessages: 1000, ReturnImmediately: true})
		if err != nil {
			continue
		}
		for _, rm := range r.ReceivedMessages {
			seen[rm.Message.MessageId]++
		}
		if len(r.ReceivedMessages) == 0 {
			break
		}
	}
	var rows int
	_ = s.Raw.QueryRow("select count(*) from deliveries d join subscriptions s on s.id = d.subscription_id where s.name = ?", dsub).Scan(&rows)
	for _, id := range pr.MessageIds {
		if seen[id] == 0 {
			return "forward-lost", fmt.Sprintf("message %s used up its attempt and was retired from the source, but never arrived on the dead-letter subscription (%d pulls, %d sweeps, %d nacks racing, %d of them failed; %d delivery rows on the dead-letter subscription for %d messages)", id, cs.Pulls, cs.Sweeps, cs.Nacks, errs, rows, cs.NMsgs)
		}
	}
	if rows != cs.NMsgs {
		return "forwarded-twice", fmt.Sprintf("%d messages were dead-lettered by %d pulls, %d sweeps and %d nacks racing (%d failed), and the dead-letter subscription holds %d deliveries", cs.NMsgs, cs.Pulls, cs.Sweeps, cs.Nacks, errs, rows)
	}
	return "", ""
}

func TestC06Race(t *testing.T) {
	defer reportFailure(t, "C06")
	s := getSUT(t)
	defer closeSUT()
	rapid.Check(t, func(rt *rapid.T) {
		cs := c06rCase{Kind: "dlrace"}
		cs.NMsgs = rapid.SampledFrom([]int{1, 2, 5, 12}).Draw(rt, "n")
		cs.Pulls = rapid.IntRange(0, 2).Draw(rt, "pulls")
		cs.Sweeps = rapid.IntRange(0, 2).Draw(rt, "sweeps")
		cs.Nacks = rapid.IntRange(0, 2).Draw(rt, "nacks")
		cs.Ordered = rapid.IntRange(0, 3).Draw(rt, "ordered") == 0
		if cs.Pulls+cs.Sweeps+cs.Nacks < 2 {
			cs.Sweeps, cs.Nacks = 1, 1
		}
		if !oneIn(rt, pick(4, 2)) {
			return
		}
		rule, detail := runC06r(s, cs)
		stats.C.Eval(stats.Hash(cs), true, func() any { return cs })
		stats.C.Class("dlrace/runs", 1)
		if rule == "harness" {
			stats.C.Class("harness-skip", 1)
			stats.C.Note("race run skipped: %s", detail)
			return
		}
		if rule != "" {
			failWith(rt, failure{Rule: rule, Detail: detail, Sig: map[string]any{"rule": rule, "race": true}, Replay: cs})
		}
	})
}

func init() {
	replayers["dlrace"] = func(t *testing.T, prop string, raw json.RawMessage) {
		var cs c06rCase
		_ = json.Unmarshal(raw, &cs)
		s := getSUT(t)
		defer closeSUT()
		for k := 0; k < 30; k++ {
			if rule, detail := runC06r(s, cs); rule != "" && rule != "harness" {
				violate(t, prop, failure{Rule: rule, Detail: detail, Sig: map[string]any{"rule": rule, "race": true}, Replay: cs})
				return
			}
		}
	}
}
