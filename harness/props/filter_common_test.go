package props

import (
	"fmt"
	"reflect"
	"strings"
	"time"

	"go.6river.tech/mmmbbb/filter"

	"verif/filt"
)

// conv maps the parsed AST of the code under test onto the reference AST.
func conv(c *filter.Condition) (*filt.Cond, error) {
	if c == nil || c.Term == nil {
		return nil, fmt.Errorf("nil condition/term")
	}
	first, err := convTerm(c.Term)
	if err != nil {
		return nil, err
	}
	out := &filt.Cond{First: first}
	switch {
	case len(c.And) > 0 && len(c.Or) > 0:
		return nil, fmt.Errorf("both AND and OR populated")
	case len(c.And) > 0:
		out.Op = "AND"
		for _, t := range c.And {
			ct, err := convTerm(t)
			if err != nil {
				return nil, err
			}
			out.Rest = append(out.Rest, ct)
		}
	case len(c.Or) > 0:
		out.Op = "OR"
		for _, t := range c.Or {
			ct, err := convTerm(t)
			if err != nil {
				return nil, err
			}
			out.Rest = append(out.Rest, ct)
		}
	}
	return out, nil
}

func convTerm(t *filter.Term) (*filt.Term, error) {
	out := &filt.Term{Not: t.Not}
	switch {
	case t.Basic != nil:
		b := t.Basic
		switch {
		case b.Has != nil:
			out.Basic = &filt.Basic{Kind: filt.Has, Name: b.Has.Name}
		case b.Value != nil:
			k := filt.Eq
			switch string(b.Value.Op) {
			case "=":
			case "!=":
				k = filt.Ne
			default:
				return nil, fmt.Errorf("op %q", b.Value.Op)
			}
			out.Basic = &filt.Basic{Kind: k, Name: b.Value.Name, Value: b.Value.Value}
		case b.Predicate != nil:
			if string(b.Predicate.Predicate) != "hasPrefix" {
				return nil, fmt.Errorf("predicate %q", b.Predicate.Predicate)
			}
			out.Basic = &filt.Basic{Kind: filt.Prefix, Name: b.Predicate.Name, Value: b.Predicate.Value}
		default:
			return nil, fmt.Errorf("empty basic")
		}
	case t.Sub != nil:
		c, err := conv(t.Sub)
		if err != nil {
			return nil, err
		}
		out.Sub = c
	default:
		return nil, fmt.Errorf("empty term")
	}
	return out, nil
}

type parseOutcome struct {
	F       *filter.Filter
	Err     error
	Panic   any
	Elapsed time.Duration
}

// parseSafe parses with the code under test, capturing panics and time.
func parseSafe(text string) (o parseOutcome) {
	t0 := time.Now()
	defer func() {
		o.Elapsed = time.Since(t0)
		if r := recover(); r != nil {
			o.Panic = r
		}
	}()
	o.F, o.Err = filter.Parse("verif", text)
	return
}

func evalSafe(f *filter.Filter, a map[string]string) (res bool, err error, pan any) {
	defer func() {
		if r := recover(); r != nil {
			pan = r
		}
	}()
	res, err = f.Evaluate(a)
	return
}

func asFilterSafe(f *filter.Filter) (s string, err error, pan any) {
	defer func() {
		if r := recover(); r != nil {
			pan = r
		}
	}()
	var sb strings.Builder
	err = f.AsFilter(&sb)
	return sb.String(), err, nil
}

// nestDepth returns the maximum parenthesis nesting of a text (outside string
// literals, approximately) - used to keep generated inputs away from the
// known stack-exhaustion finding.
func nestDepth(s string) int {
	d, m := 0, 0
	for i := 0; i < len(s); i++ {
		switch s[i] {
		case '(':
			d++
			if d > m {
				m = d
			}
		case ')':
			if d > 0 {
				d--
			}
		}
	}
	return m
}

// checkAccepted runs the checks that apply to every accepted filter text:
// round trip through AsFilter, and (if want != nil) structural equality with
// the reference AST and agreement of evaluation on the given attribute maps.
// It returns a rule name and detail on failure.
func checkAccepted(text string, f *filter.Filter, want *filt.Cond, maps []map[string]string) (string, string) {
	got, err := conv(f)
	if err != nil {
		return "ast-malformed", fmt.Sprintf("filter %q parsed into a malformed AST: %v", text, err)
	}
	if want != nil && !reflect.DeepEqual(got, want) {
		return "ast-mismatch", fmt.Sprintf("filter %q parsed as %s, reference says %s", text, got.Canon(), want.Canon())
	}
	printed, err, pan := asFilterSafe(f)
	if pan != nil {
		return "asfilter-panic", fmt.Sprintf("AsFilter of %q panicked: %v", text, pan)
	}
	if err != nil {
		return "asfilter-error", fmt.Sprintf("AsFilter of accepted filter %q failed: %v", text, err)
	}
	o2 := parseSafe(printed)
	if o2.Panic != nil {
		return "reparse-panic", fmt.Sprintf("re-parsing %q (printed from %q) panicked: %v", printed, text, o2.Panic)
	}
	if o2.Err != nil {
		return "roundtrip-reject", fmt.Sprintf("filter %q is accepted but its rendering %q does not parse: %v", text, printed, o2.Err)
	}
	got2, err := conv(o2.F)
	if err != nil {
		return "ast-malformed", fmt.Sprintf("rendering %q parsed into a malformed AST: %v", printed, err)
	}
	if !reflect.DeepEqual(got, got2) {
		return "roundtrip-changed", fmt.Sprintf("filter %q renders as %q which parses to a different filter: %s vs %s", text, printed, got.Canon(), got2.Canon())
	}
	for _, m := range maps {
		r1, e1, p1 := evalSafe(f, m)
		if p1 != nil || e1 != nil {
			return "evaluate-error", fmt.Sprintf("Evaluate(%q, %v) failed: err=%v panic=%v", text, m, e1, p1)
		}
		r2, e2, p2 := evalSafe(o2.F, m)
		if p2 != nil || e2 != nil || r1 != r2 {
			return "roundtrip-eval", fmt.Sprintf("filter %q and its rendering %q disagree on %v: %v vs %v (err=%v)", text, printed, m, r1, r2, e2)
		}
		if want != nil && r1 != want.Eval(m) {
			return "eval-mismatch", fmt.Sprintf("filter %q on %v: implementation %v, reference %v", text, m, r1, want.Eval(m))
		}
		// determinism
		r3, _, _ := evalSafe(f, m)
		if r3 != r1 {
			return "eval-nondeterministic", fmt.Sprintf("filter %q on %v gave %v then %v", text, m, r1, r3)
		}
	}
	return "", ""
}
