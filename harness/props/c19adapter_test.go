package props

import (
	"context"
	"encoding/json"
	"fmt"
	"testing"
	"time"

	"github.com/google/uuid"
	"pgregory.net/rapid"

	"go.6river.tech/mmmbbb/actions"

	"verif/stats"
)

// TestC19Adapter: model-based check of the pusher's stream adapter. The
// outcome of every POST is queued as fast success / slow success / failure;
// whatever order and batching Receive chooses, a success must come out as an
// ack and ONLY as an ack, a failure as a nack and ONLY as a nack, each exactly
// once, and the window stays within 1..1000 and is the one announced.
// Deterministic (no clock, no HTTP): states with several kinds of outcome
// queued at the same moment are reached directly instead of by timing luck.
type c19aStep struct {
	Kind int `json:"kind"` // 0 fast, 1 slow, 2 fail, 3 receive
}

type c19aCase struct {
	Kind  string     `json:"kind"` // "pushadapter"
	Steps []c19aStep `json:"steps"`
}

func init() {
	replayers["pushadapter"] = func(t *testing.T, prop string, raw json.RawMessage) {
		var cs c19aCase
		if err := json.Unmarshal(raw, &cs); err != nil {
			t.Fatal(err)
		}
		// Receive chooses among ready queues at random: give a replay the same number of tries a search case gets
		for i := 0; i < 50; i++ {
			if rule, detail, _ := runC19Adapter(cs); rule != "" && rule != "harness" {
				violate(t, prop, failure{Rule: rule, Detail: detail, Sig: map[string]any{"rule": rule, "adapter": true}})
				return
			}
		}
	}
}

func runC19Adapter(cs c19aCase) (rule, detail string, nontrivial bool) {
	conn := actions.NewVerifPushConn()
	kindOf := map[uuid.UUID]int{}
	reported := map[uuid.UUID]bool{}
	queued := [3]int{}
	pending := 0
	receive := func() (string, string) {
		ctx, cancel := context.WithTimeout(context.Background(), 2*time.Second)
		defer cancel()
		kindsQueued := 0
		for _, n := range queued {
			if n > 0 {
				kindsQueued++
			}
		}
		if kindsQueued >= 2 && queued[2] > 0 {
			nontrivial = true
		}
		req, err := conn.Receive(ctx)
		if err != nil {
			return "harness", fmt.Sprintf("Receive with %d outcomes queued: %v", pending, err)
		}
		if len(req.Ack)+len(req.Nack) == 0 {
			return "adapter-empty", "Receive returned a request without acks or nacks while outcomes were queued"
		}
		for _, id := range req.Ack {
			k, ok := kindOf[id]
			if !ok {
				return "adapter-invented", fmt.Sprintf("ack of %s which was never queued", id)
			}
			if reported[id] {
				return "adapter-duplicate", fmt.Sprintf("%s reported twice", id)
			}
			if k == 2 {
				return "failure-acked", fmt.Sprintf("a push that FAILED was turned into an acknowledgement (queued: fast=%d slow=%d fail=%d): it will never be pushed again", queued[0], queued[1], queued[2])
			}
			reported[id] = true
			queued[k]--
			pending--
		}
		for _, id := range req.Nack {
			k, ok := kindOf[id]
			if !ok {
				return "adapter-invented", fmt.Sprintf("nack of %s which was never queued", id)
			}
			if reported[id] {
				return "adapter-duplicate", fmt.Sprintf("%s reported twice", id)
			}
			if k != 2 {
				return "success-nacked", fmt.Sprintf("a push that SUCCEEDED was turned into a nack (queued: fast=%d slow=%d fail=%d): it will be pushed again", queued[0], queued[1], queued[2])
			}
			reported[id] = true
			queued[k]--
			pending--
		}
		w := conn.Window()
		if w < 1 || w > 1000 {
			return "window-range", fmt.Sprintf("window %d outside 1..1000", w)
		}
		if req.FlowControl != nil && req.FlowControl.MaxMessages != w {
			return "window-announced", fmt.Sprintf("announced window %d, adapter holds %d", req.FlowControl.MaxMessages, w)
		}
		return "", ""
	}
	for _, st := range cs.Steps {
		if st.Kind == 3 {
			if pending == 0 {
				continue
			}
			if r, d := receive(); r != "" {
				return r, d, nontrivial
			}
			continue
		}
		if queued[st.Kind] >= 10 { // the production queues hold 10 entries
			continue
		}
		id := uuid.New()
		kindOf[id] = st.Kind
		queued[st.Kind]++
		pending++
		conn.Queue(st.Kind, id)
	}
	for pending > 0 {
		if r, d := receive(); r != "" {
			return r, d, nontrivial
		}
	}
	for id := range kindOf {
		if !reported[id] {
			return "adapter-lost", fmt.Sprintf("outcome of %s was never reported", id), nontrivial
		}
	}
	return "", "", nontrivial
}

func TestC19Adapter(t *testing.T) {
	defer reportFailure(t, "C19")
	rapid.Check(t, func(rt *rapid.T) {
		cs := c19aCase{Kind: "pushadapter"}
		n := rapid.IntRange(20, 400).Draw(rt, "nsteps")
		for i := 0; i < n; i++ {
			cs.Steps = append(cs.Steps, c19aStep{Kind: rapid.SampledFrom([]int{0, 0, 1, 1, 2, 2, 3, 3, 3}).Draw(rt, "kind")})
		}
		rule, detail, nt := runC19Adapter(cs)
		stats.C.Eval(stats.Hash(cs), nt, func() any { return cs })
		stats.C.Class("adapter-sequences", 1)
		if rule == "harness" {
			stats.C.Class("harness-skip", 1)
			return
		}
		if rule != "" {
			failWith(rt, failure{Rule: rule, Detail: detail, Sig: map[string]any{"rule": rule, "adapter": true}, Replay: cs})
		}
	})
}
