package props

import (
	"context"
	"encoding/json"
	"fmt"
	"reflect"
	"sort"
	"strings"
	"testing"
	"time"

	"cloud.google.com/go/pubsub/apiv1/pubsubpb"
	"google.golang.org/grpc/codes"
	"google.golang.org/grpc/status"
	"google.golang.org/protobuf/types/known/durationpb"
	"google.golang.org/protobuf/types/known/fieldmaskpb"
	"pgregory.net/rapid"

	"go.6river.tech/mmmbbb/verifhooks/export"

	"verif/hist"
	"verif/stats"
	"verif/sut"
)

// ---------------------------------------------------------------- (i)/(ii) configuration model

// subView is the client-visible configuration of a subscription.
type subView struct {
	Topic     string            `json:"topic"`
	Labels    map[string]string `json:"labels"`
	TTL       time.Duration     `json:"ttl"`
	Retention time.Duration     `json:"retention"`
	Ordered   bool              `json:"ordered"`
	Filter    string            `json:"filter"`
	HasRetry  bool              `json:"has_retry"`
	HasMin    bool              `json:"has_min"`
	HasMax    bool              `json:"has_max"`
	MinB      time.Duration     `json:"minb"`
	MaxB      time.Duration     `json:"maxb"`
	DLTopic   string            `json:"dl_topic"`
	Attempts  int32             `json:"attempts"`
	Push      string            `json:"push"`
}

func viewOf(p *pubsubpb.Subscription) subView {
	v := subView{Topic: p.Topic, Labels: map[string]string{}, TTL: p.GetExpirationPolicy().GetTtl().AsDuration(), Retention: p.GetMessageRetentionDuration().AsDuration(),
		Ordered: p.EnableMessageOrdering, Filter: p.Filter, Push: p.GetPushConfig().GetPushEndpoint()}
	for k, x := range p.Labels {
		v.Labels[k] = x
	}
	if rp := p.RetryPolicy; rp != nil {
		v.HasRetry = true
		if rp.MinimumBackoff != nil {
			v.HasMin, v.MinB = true, rp.MinimumBackoff.AsDuration()
		}
		if rp.MaximumBackoff != nil {
			v.HasMax, v.MaxB = true, rp.MaximumBackoff.AsDuration()
		}
	}
	if dl := p.DeadLetterPolicy; dl != nil {
		v.DLTopic, v.Attempts = dl.DeadLetterTopic, dl.MaxDeliveryAttempts
	}
	return v
}

const (
	defTTL       = 30 * 24 * time.Hour
	defRetention = 7 * 24 * time.Hour
)

// expectAfterCreate applies the documented defaults to a create request.
func expectAfterCreate(req *pubsubpb.Subscription) subView {
	v := viewOf(req)
	if v.TTL == 0 {
		v.TTL = defTTL
	}
	if v.Retention == 0 {
		v.Retention = defRetention
	}
	// absent == empty retry block; a zero backoff means "not set"
	if !(v.HasMin && v.MinB > 0) {
		v.HasMin, v.MinB = false, 0
	}
	if !(v.HasMax && v.MaxB > 0) {
		v.HasMax, v.MaxB = false, 0
	}
	v.HasRetry = v.HasMin || v.HasMax
	if v.DLTopic != "" && v.Attempts == 0 {
		v.Attempts = 5
	}
	return v
}

// applyUpdate applies an UpdateSubscription (known paths only) to the view.
func applyUpdate(v subView, req *pubsubpb.Subscription, paths []string) subView {
	n := v
	n.Labels = map[string]string{}
	for k, x := range v.Labels {
		n.Labels[k] = x
	}
	for _, p := range paths {
		switch p {
		case "labels":
			n.Labels = map[string]string{}
			for k, x := range req.Labels {
				n.Labels[k] = x
			}
		case "expiration_policy":
			n.TTL = req.GetExpirationPolicy().GetTtl().AsDuration()
			if n.TTL == 0 {
				n.TTL = defTTL
			}
		case "message_retention_duration":
			n.Retention = req.GetMessageRetentionDuration().AsDuration()
			if n.Retention == 0 {
				n.Retention = defRetention
			}
		case "enable_message_ordering":
			n.Ordered = req.EnableMessageOrdering
		case "retry_policy":
			rp := req.GetRetryPolicy()
			n.HasMin, n.MinB, n.HasMax, n.MaxB = false, 0, false, 0
			if rp.GetMinimumBackoff() != nil {
				n.HasMin, n.MinB = true, rp.MinimumBackoff.AsDuration()
			}
			if rp.GetMaximumBackoff() != nil {
				n.HasMax, n.MaxB = true, rp.MaximumBackoff.AsDuration()
			}
			n.HasRetry = n.HasMin || n.HasMax
		case "push_config":
			n.Push = req.GetPushConfig().GetPushEndpoint()
		case "filter":
			n.Filter = req.Filter
		case "dead_letter_policy":
			dl := req.GetDeadLetterPolicy()
			n.DLTopic, n.Attempts = dl.GetDeadLetterTopic(), dl.GetMaxDeliveryAttempts()
			if n.DLTopic == "" {
				n.Attempts = 0
			} else if n.Attempts == 0 {
				n.Attempts = 5
			}
		}
	}
	return n
}

func viewDiff(got, want subView) string {
	if reflect.DeepEqual(got, want) {
		return ""
	}
	gb, _ := json.Marshal(got)
	wb, _ := json.Marshal(want)
	var parts []string
	var gm, wm map[string]any
	_ = json.Unmarshal(gb, &gm)
	_ = json.Unmarshal(wb, &wm)
	for k := range wm {
		if !reflect.DeepEqual(gm[k], wm[k]) {
			parts = append(parts, fmt.Sprintf("%s: got %v want %v", k, gm[k], wm[k]))
		}
	}
	sort.Strings(parts)
	return strings.Join(parts, "; ")
}

// durations: edge-biased, from 1 ns to 100 years
func genPosDuration(rt *rapid.T, label string) time.Duration {
	switch rapid.IntRange(0, 6).Draw(rt, label+"-k") {
	case 0:
		return rapid.SampledFrom([]time.Duration{1, 999, time.Microsecond, time.Millisecond, time.Second, time.Minute, time.Hour, 24 * time.Hour, 30 * 24 * time.Hour, 365 * 24 * time.Hour, 100 * 365 * 24 * time.Hour}).Draw(rt, label)
	case 1:
		return time.Duration(rapid.Int64Range(1, int64(time.Second)).Draw(rt, label))
	case 2:
		return time.Duration(rapid.Int64Range(1, int64(100*365*24*time.Hour)).Draw(rt, label))
	case 3:
		return time.Duration(rapid.Int64Range(1, 1000).Draw(rt, label))*time.Second + time.Duration(rapid.Int64Range(0, 999999999).Draw(rt, label+"-ns"))
	default:
		return time.Duration(rapid.Int64Range(1, 100000).Draw(rt, label)) * rapid.SampledFrom([]time.Duration{time.Millisecond, time.Second, time.Minute, time.Hour}).Draw(rt, label+"-u")
	}
}

func optDur(rt *rapid.T, label string) *durationpb.Duration {
	switch rapid.IntRange(0, 4).Draw(rt, label+"-opt") {
	case 0:
		return nil
	case 1:
		return durationpb.New(0)
	default:
		return durationpb.New(genPosDuration(rt, label))
	}
}

func genLabels(rt *rapid.T, label string) map[string]string {
	switch rapid.IntRange(0, 3).Draw(rt, label+"-k") {
	case 0:
		return nil
	case 1:
		return map[string]string{}
	}
	n := rapid.IntRange(1, 4).Draw(rt, label+"-n")
	m := map[string]string{}
	for i := 0; i < n; i++ {
		m[rapid.SampledFrom([]string{"a", "b", "", "é", "k k", `"q"`, "<&>"}).Draw(rt, label+"-key")] = rapid.SampledFrom([]string{"", "v", "é😀", " ", `\`, "null"}).Draw(rt, label+"-val")
	}
	return m
}

var c17Filters = []string{"", "", `attributes:x`, `attributes.x = "1"`, `NOT attributes:y AND hasPrefix(attributes.x,"p")`, `  attributes:"a b"  `}

func genSubCfg(rt *rapid.T, name, topic string, dlTopics []string) *pubsubpb.Subscription {
	p := &pubsubpb.Subscription{Name: name, Topic: topic, Labels: genLabels(rt, "labels"), EnableMessageOrdering: rapid.Bool().Draw(rt, "ordered"),
		Filter: rapid.SampledFrom(c17Filters).Draw(rt, "filter"), MessageRetentionDuration: optDur(rt, "retention")}
	switch rapid.IntRange(0, 2).Draw(rt, "exp") {
	case 1:
		p.ExpirationPolicy = &pubsubpb.ExpirationPolicy{}
	case 2:
		p.ExpirationPolicy = &pubsubpb.ExpirationPolicy{Ttl: optDur(rt, "ttl")}
	}
	switch rapid.IntRange(0, 2).Draw(rt, "rp") {
	case 1:
		p.RetryPolicy = &pubsubpb.RetryPolicy{}
	case 2:
		p.RetryPolicy = &pubsubpb.RetryPolicy{MinimumBackoff: optDur(rt, "minb"), MaximumBackoff: optDur(rt, "maxb")}
	}
	if rapid.Bool().Draw(rt, "dl") {
		p.DeadLetterPolicy = &pubsubpb.DeadLetterPolicy{DeadLetterTopic: rapid.SampledFrom(dlTopics).Draw(rt, "dlt"), MaxDeliveryAttempts: rapid.SampledFrom([]int32{0, 1, 5, 7, 100}).Draw(rt, "att")}
	}
	switch rapid.IntRange(0, 3).Draw(rt, "push") {
	case 1:
		p.PushConfig = &pubsubpb.PushConfig{}
	case 2:
		p.PushConfig = &pubsubpb.PushConfig{PushEndpoint: "http://127.0.0.1:9/push?x=1&y=é"}
	}
	return p
}

type c17Step struct {
	Req   string   `json:"req"` // base64 wire
	Text  string   `json:"text"`
	Paths []string `json:"paths,omitempty"`
}

type c17Case struct {
	Kind  string    `json:"kind"` // "config"
	Steps []c17Step `json:"steps"`
}

var c17KnownPaths = []string{"labels", "expiration_policy", "message_retention_duration", "enable_message_ordering", "retry_policy", "push_config", "filter", "dead_letter_policy"}
var c17BadPaths = []string{"name", "topic", "ack_deadline_seconds", "retain_acked_messages", "detached", "nonsense", "labels.a"}

const (
	c17T, c17D1, c17D2 = "projects/p/topics/t", "projects/p/topics/d1", "projects/p/topics/d2"
	c17S               = "projects/p/subscriptions/s"
)

// runC17Steps executes create + updates; step 0 is the create.
func runC17Steps(ctx context.Context, s *sut.SUT, steps []struct {
	req   *pubsubpb.Subscription
	paths []string
}) (rule, detail string, nontrivial bool) {
	for _, t := range []string{c17T, c17D1, c17D2} {
		if _, err := s.Pub.CreateTopic(ctx, &pubsubpb.Topic{Name: t}); err != nil {
			return "harness", err.Error(), false
		}
	}
	var cur subView
	for i, st := range steps {
		if i == 0 {
			_, err := s.Sub.CreateSubscription(ctx, st.req)
			if err != nil {
				return "create-rejected", fmt.Sprintf("CreateSubscription rejected an in-domain configuration: %v", err), false
			}
			cur = expectAfterCreate(st.req)
			blocks := 0
			for _, b := range []bool{st.req.RetryPolicy != nil && cur.HasRetry, st.req.DeadLetterPolicy != nil, st.req.ExpirationPolicy.GetTtl().AsDuration() != 0, st.req.MessageRetentionDuration.AsDuration() != 0, len(st.req.Labels) > 0, st.req.Filter != "", st.req.PushConfig.GetPushEndpoint() != ""} {
				if b {
					blocks++
				}
			}
			nontrivial = blocks >= 3
		} else {
			bad := false
			for _, p := range st.paths {
				for _, b := range c17BadPaths {
					if p == b {
						bad = true
					}
				}
			}
			_, err := s.Sub.UpdateSubscription(ctx, &pubsubpb.UpdateSubscriptionRequest{Subscription: st.req, UpdateMask: &fieldmaskpb.FieldMask{Paths: st.paths}})
			if bad {
				if status.Code(err) != codes.InvalidArgument {
					return "update-bad-path", fmt.Sprintf("step %d: update with mask %v (contains a forbidden or unknown path) answered %v, expected InvalidArgument", i, st.paths, err), nontrivial
				}
			} else {
				if err != nil {
					return "update-rejected", fmt.Sprintf("step %d: update with mask %v rejected: %v", i, st.paths, err), nontrivial
				}
				cur = applyUpdate(cur, st.req, st.paths)
				if i >= 2 && len(st.paths) >= 2 {
					nontrivial = true
				}
			}
		}
		got, err := s.Sub.GetSubscription(ctx, &pubsubpb.GetSubscriptionRequest{Subscription: c17S})
		if err != nil {
			return "get-failed", fmt.Sprintf("step %d: GetSubscription failed: %v", i, err), nontrivial
		}
		if d := viewDiff(viewOf(got), cur); d != "" {
			what := "create"
			if i > 0 {
				what = fmt.Sprintf("update with mask %v", st.paths)
			}
			return "get-mismatch", fmt.Sprintf("step %d: after %s, GetSubscription differs from what was set: %s", i, what, d), nontrivial
		}
		ls, err := s.Sub.ListSubscriptions(ctx, &pubsubpb.ListSubscriptionsRequest{Project: "projects/p"})
		if err != nil || len(ls.Subscriptions) != 1 {
			return "list-failed", fmt.Sprintf("step %d: ListSubscriptions: %v (%d entries)", i, err, len(ls.GetSubscriptions())), nontrivial
		}
		if d := viewDiff(viewOf(ls.Subscriptions[0]), cur); d != "" {
			return "list-mismatch", fmt.Sprintf("step %d: ListSubscriptions entry differs from what was set: %s", i, d), nontrivial
		}
		// ... and what is enforced: a subscription whose TTL (as reported) is at
		// least a second must survive an expiry sweep run right now
		if cur.TTL >= time.Second {
			if _, err := hist.RunJob(ctx, s, "expired-subscriptions", 0, 100); err != nil {
				return "harness", "expiry sweep: " + err.Error(), nontrivial
			}
			if _, err := s.Sub.GetSubscription(ctx, &pubsubpb.GetSubscriptionRequest{Subscription: c17S}); err != nil {
				return "ttl-not-enforced", fmt.Sprintf("step %d: the subscription reports an expiration TTL of %v but an expiry sweep run immediately afterwards removed it (%v)", i, cur.TTL, err), nontrivial
			}
		}
	}
	return "", "", nontrivial
}

type c17s = struct {
	req   *pubsubpb.Subscription
	paths []string
}

func TestC17(t *testing.T) {
	defer reportFailure(t, "C17")
	s := getSUT(t)
	defer closeSUT()
	ctx := context.Background()
	t.Run("config", func(t *testing.T) {
		rapid.Check(t, func(rt *rapid.T) {
			if err := s.Reset(seed(), true); err != nil {
				rt.Fatalf("reset: %v", err)
			}
			steps := []c17s{{req: genSubCfg(rt, c17S, c17T, []string{c17D1, c17D2})}}
			n := rapid.IntRange(0, 5).Draw(rt, "nupd")
			for i := 0; i < n; i++ {
				req := genSubCfg(rt, c17S, c17T, []string{c17D1, c17D2, ""})
				var paths []string
				k := rapid.IntRange(1, 4).Draw(rt, "npaths")
				for j := 0; j < k; j++ {
					paths = append(paths, rapid.SampledFrom(c17KnownPaths).Draw(rt, "path"))
				}
				if rapid.IntRange(0, 7).Draw(rt, "bad") == 0 {
					paths = append(paths, rapid.SampledFrom(c17BadPaths).Draw(rt, "badpath"))
					if rapid.Bool().Draw(rt, "badfirst") {
						paths[0], paths[len(paths)-1] = paths[len(paths)-1], paths[0]
					}
				}
				steps = append(steps, c17s{req: req, paths: paths})
			}
			cs := c17Case{Kind: "config"}
			for _, st := range steps {
				cs.Steps = append(cs.Steps, c17Step{Req: reqWire(st.req), Text: reqJSON(st.req), Paths: st.paths})
			}
			rule, detail, nt := runC17Steps(ctx, s, steps)
			stats.C.Eval(stats.Hash(cs), nt, func() any { return cs })
			stats.C.Class("config-sequences", 1)
			if rule != "" {
				failWith(rt, failure{Rule: rule, Detail: detail, Sig: map[string]any{"rule": rule}, Replay: cs})
			}
		})
	})
	t.Run("topic", func(t *testing.T) {
		rapid.Check(t, func(rt *rapid.T) {
			if err := s.Reset(seed(), true); err != nil {
				rt.Fatalf("reset: %v", err)
			}
			l0 := genLabels(rt, "l0")
			if _, err := s.Pub.CreateTopic(ctx, &pubsubpb.Topic{Name: c17T, Labels: l0}); err != nil {
				rt.Fatalf("create topic: %v", err)
			}
			cur := l0
			check := func(where string) {
				got, err := s.Pub.GetTopic(ctx, &pubsubpb.GetTopicRequest{Topic: c17T})
				if err != nil || !attrsEq(got.Labels, cur) {
					failWith(rt, failure{Rule: "topic-labels", Detail: fmt.Sprintf("%s: GetTopic labels %v (err %v), expected %v", where, got.GetLabels(), err, cur), Replay: map[string]any{"kind": "none"}})
				}
				ls, err := s.Pub.ListTopics(ctx, &pubsubpb.ListTopicsRequest{Project: "projects/p"})
				if err != nil || len(ls.Topics) != 1 || !attrsEq(ls.Topics[0].Labels, cur) {
					failWith(rt, failure{Rule: "topic-labels", Detail: fmt.Sprintf("%s: ListTopics %v (err %v), expected labels %v", where, ls.GetTopics(), err, cur), Replay: map[string]any{"kind": "none"}})
				}
			}
			check("after create")
			for i := 0; i < rapid.IntRange(0, 3).Draw(rt, "n"); i++ {
				l := genLabels(rt, "l")
				paths := []string{"labels"}
				bad := rapid.IntRange(0, 4).Draw(rt, "bad") == 0
				if bad {
					paths = append(paths, "nonsense")
				}
				_, err := s.Pub.UpdateTopic(ctx, &pubsubpb.UpdateTopicRequest{Topic: &pubsubpb.Topic{Name: c17T, Labels: l}, UpdateMask: &fieldmaskpb.FieldMask{Paths: paths}})
				if bad != (err != nil) {
					failWith(rt, failure{Rule: "topic-update", Detail: fmt.Sprintf("UpdateTopic mask %v: %v", paths, err), Replay: map[string]any{"kind": "none"}})
				}
				if !bad {
					cur = l
				}
				check(fmt.Sprintf("after update %d mask %v", i, paths))
			}
			stats.C.EvalN(1)
			stats.C.Class("topic-sequences", 1)
		})
	})
	t.Run("codec", func(t *testing.T) { c17Codec(t) })
}

func attrsEq(a, b map[string]string) bool {
	if len(a) != len(b) {
		return false
	}
	for k, v := range a {
		if w, ok := b[k]; !ok || w != v {
			return false
		}
	}
	return true
}

func init() {
	replayers["config"] = func(t *testing.T, prop string, raw json.RawMessage) {
		var cs c17Case
		if err := json.Unmarshal(raw, &cs); err != nil {
			t.Fatal(err)
		}
		var steps []c17s
		for _, st := range cs.Steps {
			g, err := reqFromJSON("CreateSubscription", st.Req)
			if err != nil {
				t.Fatal(err)
			}
			steps = append(steps, c17s{req: g.Msg.(*pubsubpb.Subscription), paths: st.Paths})
		}
		s := getSUT(t)
		defer closeSUT()
		_ = s.Reset(seed(), true)
		if rule, detail, _ := runC17Steps(context.Background(), s, steps); rule != "" {
			violate(t, prop, failure{Rule: rule, Detail: detail, Sig: map[string]any{"rule": rule}})
		}
	}
	replayers["interval"] = func(t *testing.T, prop string, raw json.RawMessage) {
		var c struct {
			Text string `json:"text"`
			Want int64  `json:"want"`
			Dur  int64  `json:"dur"`
			Mode string `json:"mode"`
		}
		_ = json.Unmarshal(raw, &c)
		var rule, detail string
		if c.Mode == "roundtrip" {
			rule, detail = checkDurationRoundTrip(time.Duration(c.Dur))
		} else {
			rule, detail = checkIntervalText(c.Text, time.Duration(c.Want))
		}
		if rule != "" {
			violate(t, prop, failure{Rule: rule, Detail: detail})
		}
	}
}

// ---------------------------------------------------------------- (iii) codec

func checkDurationRoundTrip(d time.Duration) (string, string) {
	v, err := export.Interval(d).Value()
	if err != nil {
		return "codec-value", fmt.Sprintf("Interval(%v).Value(): %v", d, err)
	}
	var back export.Interval
	if err := back.Scan(v); err != nil {
		return "codec-scan", fmt.Sprintf("stored form %q of %v does not scan back: %v", v, d, err)
	}
	if time.Duration(back) != d {
		return "codec-roundtrip", fmt.Sprintf("duration %v (%d ns) is stored as %q and read back as %v (%d ns)", d, int64(d), v, time.Duration(back), int64(back))
	}
	jb, err := json.Marshal(export.Interval(d))
	if err != nil {
		return "codec-json", err.Error()
	}
	var jback export.Interval
	if err := json.Unmarshal(jb, &jback); err != nil || time.Duration(jback) != d {
		return "codec-json", fmt.Sprintf("duration %v -> JSON %s -> %v (err %v)", d, jb, time.Duration(jback), err)
	}
	return "", ""
}

func checkIntervalText(text string, want time.Duration) (string, string) {
	var got time.Duration
	var err error
	var pan any
	func() {
		defer func() { pan = recover() }()
		got, err = export.ParsePostgreSQLInterval(text)
	}()
	if pan != nil {
		return "interval-panic", fmt.Sprintf("ParsePostgreSQLInterval(%q) panicked: %v", text, pan)
	}
	if err != nil {
		return "interval-rejected", fmt.Sprintf("PostgreSQL-style interval %q (= %v) is rejected: %v", text, want, err)
	}
	if got != want {
		return "interval-value", fmt.Sprintf("PostgreSQL-style interval %q parses to %v, reference value %v", text, got, want)
	}
	return "", ""
}

type pgInterval struct {
	Years, Mons, Days int
	HasY, HasM, HasD  bool
	HasTime           bool
	Neg               bool
	H, M, S           int
	Frac              string
}

func plural(n int, unit string) string {
	if n == 1 || n == -1 {
		return fmt.Sprintf("%d %s", n, unit)
	}
	return fmt.Sprintf("%d %ss", n, unit)
}

// text renders the interval the way PostgreSQL's "postgres" IntervalStyle
// prints it: "[N year[s]] [N mon[s]] [N day[s]] [[-]HH:MM:SS[.ffffff]]", with
// an explicit + on a field that follows a negative one.
func (p pgInterval) text() string {
	var parts []string
	prevNeg := false
	add := func(n int, unit string) {
		s := plural(n, unit)
		if n >= 0 && prevNeg {
			s = "+" + s
		}
		prevNeg = n < 0
		parts = append(parts, s)
	}
	if p.HasY {
		add(p.Years, "year")
	}
	if p.HasM {
		add(p.Mons, "mon")
	}
	if p.HasD {
		add(p.Days, "day")
	}
	if p.HasTime {
		sign := ""
		if p.Neg {
			sign = "-"
		} else if prevNeg {
			sign = "+"
		}
		t := fmt.Sprintf("%s%02d:%02d:%02d", sign, p.H, p.M, p.S)
		if p.Frac != "" {
			t += "." + p.Frac
		}
		parts = append(parts, t)
	}
	return strings.Join(parts, " ")
}

func (p pgInterval) value() time.Duration {
	day := 24 * time.Hour
	v := time.Duration(p.Years)*365*day + time.Duration(p.Mons)*30*day + time.Duration(p.Days)*day
	if p.HasTime {
		tp := time.Duration(p.H)*time.Hour + time.Duration(p.M)*time.Minute + time.Duration(p.S)*time.Second
		if p.Frac != "" {
			f := p.Frac + strings.Repeat("0", 9-len(p.Frac))
			var ns int64
			fmt.Sscanf(f, "%d", &ns)
			tp += time.Duration(ns)
		}
		if p.Neg {
			tp = -tp
		}
		v += tp
	}
	return v
}

func genPGInterval(rt *rapid.T, allowNeg, allowNoTime bool) pgInterval {
	sgn := func(n int, label string) int {
		if allowNeg && rapid.IntRange(0, 4).Draw(rt, label+"-neg") == 0 {
			return -n
		}
		return n
	}
	p := pgInterval{HasTime: true}
	if rapid.IntRange(0, 2).Draw(rt, "hasy") == 0 {
		p.HasY, p.Years = true, sgn(rapid.IntRange(1, 100).Draw(rt, "years"), "y")
	}
	if rapid.IntRange(0, 2).Draw(rt, "hasm") == 0 {
		p.HasM, p.Mons = true, sgn(rapid.IntRange(1, 11).Draw(rt, "mons"), "m")
	}
	if rapid.IntRange(0, 2).Draw(rt, "hasd") == 0 {
		p.HasD, p.Days = true, sgn(rapid.IntRange(1, 400).Draw(rt, "days"), "d")
	}
	if allowNoTime && (p.HasY || p.HasM || p.HasD) && rapid.IntRange(0, 3).Draw(rt, "notime") == 0 {
		p.HasTime = false
		return p
	}
	p.H = rapid.SampledFrom([]int{0, 0, 1, 7, 23, 24, 100, 720, 9999}).Draw(rt, "h")
	p.M = rapid.IntRange(0, 59).Draw(rt, "mi")
	p.S = rapid.IntRange(0, 59).Draw(rt, "s")
	if rapid.Bool().Draw(rt, "hasfrac") {
		n := rapid.IntRange(1, 9).Draw(rt, "nfrac")
		p.Frac = rapid.StringMatching(fmt.Sprintf("[0-9]{%d}", n)).Draw(rt, "frac")
	}
	if allowNeg && (p.H+p.M+p.S > 0 || strings.Trim(p.Frac, "0") != "") && rapid.IntRange(0, 4).Draw(rt, "tneg") == 0 {
		p.Neg = true
	}
	return p
}

func c17Codec(t *testing.T) {
	// all time.Duration values (edge-biased) through Value -> Scan and JSON
	t.Run("roundtrip", func(t *testing.T) {
		rapid.Check(t, func(rt *rapid.T) {
			var d time.Duration
			switch rapid.IntRange(0, 3).Draw(rt, "k") {
			case 0:
				d = genPosDuration(rt, "d")
			case 1:
				d = time.Duration(rapid.Int64().Draw(rt, "any"))
			case 2:
				d = -genPosDuration(rt, "nd")
			default:
				d = rapid.SampledFrom([]time.Duration{0, 1, -1, 1<<63 - 1, -1 << 63, time.Second - 1, time.Hour + 1}).Draw(rt, "edge")
			}
			stats.C.Eval("dur:"+fmt.Sprint(int64(d)), d%time.Second != 0, func() any { return map[string]any{"duration_ns": int64(d), "text": d.String()} })
			stats.C.Class("codec/roundtrip", 1)
			if rule, detail := checkDurationRoundTrip(d); rule != "" {
				failWith(rt, failure{Rule: rule, Detail: detail, Replay: map[string]any{"kind": "interval", "mode": "roundtrip", "dur": int64(d)}})
			}
		})
	})
	// PostgreSQL-style interval strings from an independent formatter
	t.Run("pgtext", func(t *testing.T) {
		rapid.Check(t, func(rt *rapid.T) {
			p := genPGInterval(rt, true, true)
			text, want := p.text(), p.value()
			units := 0
			for _, b := range []bool{p.HasY, p.HasM, p.HasD, p.HasTime} {
				if b {
					units++
				}
			}
			stats.C.Eval("pg:"+text, units >= 2, func() any { return map[string]any{"interval_text": text, "reference_ns": int64(want)} })
			stats.C.Class("codec/pgtext", 1)
			if p.Neg || p.Years < 0 || p.Mons < 0 || p.Days < 0 {
				stats.C.Class("codec/pgtext-negative", 1)
			}
			if !p.HasTime {
				stats.C.Class("codec/pgtext-no-time-part", 1)
			}
			if rule, detail := checkIntervalText(text, want); rule != "" {
				sig := map[string]any{"negative_time": p.Neg, "no_time_part": !p.HasTime}
				failWith(rt, failure{Rule: rule, Detail: detail, Sig: sig, Replay: map[string]any{"kind": "interval", "mode": "pgtext", "text": text, "want": int64(want)}})
			}
		})
	})
}

// FuzzC17Interval: arbitrary strings must return (never panic); an accepted
// string that is in the reference format must have the reference value.
func FuzzC17Interval(f *testing.F) {
	for _, s := range []string{"00:00:00", "1 day 00:00:01", "-01:30:00", "3 days", "1 year 2 mons 3 days 04:05:06.789", "1h2m3s", "", "-", "::", "1 day", "+1 days -00:00:01", "00:00:00.0000000001", "99999999999999999999:00:00", "1 year 1 year 00:00:00"} {
		f.Add(s)
	}
	f.Fuzz(func(t *testing.T, s string) {
		if len(s) > 256 {
			return
		}
		var pan any
		func() {
			defer func() { pan = recover() }()
			_, _ = export.ParsePostgreSQLInterval(s)
		}()
		if pan != nil {
			t.Fatalf("VERIF-FAIL rule=interval-panic: ParsePostgreSQLInterval(%q) panicked: %v", s, pan)
		}
	})
}
