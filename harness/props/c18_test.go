package props

import (
	"context"
	"encoding/json"
	"errors"
	"fmt"
	"sort"
	"sync"
	"sync/atomic"
	"testing"

	"cloud.google.com/go/pubsub/apiv1/pubsubpb"
	"google.golang.org/grpc"
	"google.golang.org/grpc/codes"
	"google.golang.org/grpc/status"
	"pgregory.net/rapid"

	"go.6river.tech/mmmbbb/faults"
	mbgrpc "go.6river.tech/mmmbbb/grpc"

	"verif/stats"
)

type c18Desc struct {
	Op     string            `json:"op"`
	Params map[string]string `json:"params"`
	Count  int64             `json:"count"`
}

type c18Call struct {
	Op     string            `json:"op"`
	Params map[string]string `json:"params"`
}

type c18Case struct {
	Kind       string    `json:"kind"` // "faults"
	Descs      []c18Desc `json:"descs"`
	Calls      []c18Call `json:"calls"`
	Goroutines int       `json:"goroutines"`
	Repeats    int       `json:"repeats"`
}

type firedErr struct {
	desc      int
	remaining int64
}

func (e *firedErr) Error() string {
	return fmt.Sprintf("injected by #%d remaining=%d", e.desc, e.remaining)
}

func descMatches(d c18Desc, c c18Call) bool {
	if d.Op != c.Op {
		return false
	}
	for k, v := range d.Params {
		if w, ok := c.Params[k]; !ok || w != v {
			return false
		}
	}
	return true
}

// runC18Trial runs the calls once, concurrently, and checks the oracle.
func runC18Trial(cs c18Case) (rule, detail string) {
	set := faults.NewSet("verif_c18")
	for i, d := range cs.Descs {
		i := i
		params := map[string]string{}
		for k, v := range d.Params {
			params[k] = v
		}
		set.Add(faults.Description{Operation: d.Op, Parameters: params, Count: d.Count, FaultDescription: fmt.Sprint(i),
			OnFault: func(dd faults.Description, _ faults.Parameters) error { return &firedErr{desc: i, remaining: dd.Count} }})
	}
	results := make([]error, len(cs.Calls))
	var wg sync.WaitGroup
	start := make(chan struct{})
	g := cs.Goroutines
	if g < 1 {
		g = 1
	}
	var next int64 = -1
	for w := 0; w < g; w++ {
		wg.Add(1)
		go func(w int) {
			defer wg.Done()
			<-start
			for {
				i := int(atomic.AddInt64(&next, 1))
				if i >= len(cs.Calls) {
					return
				}
				c := cs.Calls[i]
				p := map[string]string{}
				for k, v := range c.Params {
					p[k] = v
				}
				results[i] = set.Check(c.Op, p)
			}
		}(w)
	}
	close(start)
	wg.Wait()

	fires := make([]int, len(cs.Descs))
	remSeen := make([]map[int64]bool, len(cs.Descs))
	for i := range remSeen {
		remSeen[i] = map[int64]bool{}
	}
	failed := 0
	for i, err := range results {
		if err == nil {
			continue
		}
		failed++
		var fe *firedErr
		if !errors.As(err, &fe) {
			return "foreign-error", fmt.Sprintf("call %d got an error that no description produced: %v", i, err)
		}
		d := cs.Descs[fe.desc]
		if !descMatches(d, cs.Calls[i]) {
			return "fired-on-non-matching", fmt.Sprintf("call %d %v was failed by description #%d %v which it does not match", i, cs.Calls[i], fe.desc, d)
		}
		fires[fe.desc]++
		if remSeen[fe.desc][fe.remaining] {
			return "duplicate-remaining", fmt.Sprintf("description #%d reported remaining=%d twice", fe.desc, fe.remaining)
		}
		remSeen[fe.desc][fe.remaining] = true
		if fe.remaining < 0 || fe.remaining >= d.Count {
			return "bad-remaining", fmt.Sprintf("description #%d (count %d) fired with remaining=%d", fe.desc, d.Count, fe.remaining)
		}
	}
	for di, d := range cs.Descs {
		max := d.Count
		if max < 0 {
			max = 0
		}
		if int64(fires[di]) > max {
			return "over-fire", fmt.Sprintf("description #%d %v with count %d failed %d calls (%d goroutines, %d calls)", di, d.Params, d.Count, fires[di], g, len(cs.Calls))
		}
	}
	// a call that was not failed: every description matching it must be exhausted
	for i, err := range results {
		if err != nil {
			continue
		}
		for di, d := range cs.Descs {
			if d.Count > 0 && descMatches(d, cs.Calls[i]) && int64(fires[di]) < d.Count {
				return "under-fire", fmt.Sprintf("call %d %v matched description #%d (count %d) but was not failed although that description only fired %d times", i, cs.Calls[i], di, d.Count, fires[di])
			}
		}
	}
	// exact count when a single description is in play
	if len(cs.Descs) == 1 {
		matching := 0
		for _, c := range cs.Calls {
			if descMatches(cs.Descs[0], c) {
				matching++
			}
		}
		want := int(cs.Descs[0].Count)
		if want < 0 {
			want = 0
		}
		if matching < want {
			want = matching
		}
		if failed != want {
			return "exact-count", fmt.Sprintf("one description with count %d, %d matching calls of %d on %d goroutines: %d calls failed, expected exactly %d", cs.Descs[0].Count, matching, len(cs.Calls), g, failed, want)
		}
	}
	// listing
	cur := set.Current()
	type lk struct {
		op, fd string
	}
	listed := map[lk]int64{}
	for op, l := range cur {
		for _, d := range l {
			listed[lk{op, d.FaultDescription}] = d.Count
		}
	}
	for di, d := range cs.Descs {
		left := d.Count - int64(fires[di])
		got, ok := listed[lk{d.Op, fmt.Sprint(di)}]
		if left > 0 && (!ok || got != left) {
			return "listing", fmt.Sprintf("description #%d (count %d, fired %d) should be listed with %d remaining, listing says %d (listed=%v)", di, d.Count, fires[di], left, got, ok)
		}
		if left <= 0 && ok {
			return "listing", fmt.Sprintf("description #%d is exhausted (count %d, fired %d) but is still listed with %d", di, d.Count, fires[di], got)
		}
	}
	return "", ""
}

func genC18Case(rt *rapid.T) c18Case {
	ops := []string{"Pull", "Publish"}
	keys := []string{"subscription", "topic", "service"}
	vals := []string{"a", "a", "b", "b", ""} // an empty value is a value: it matches a present empty parameter, not an absent one
	genParams := func(label string, max int) map[string]string {
		n := rapid.IntRange(0, max).Draw(rt, label+"-n")
		m := map[string]string{}
		for i := 0; i < n; i++ {
			m[rapid.SampledFrom(keys).Draw(rt, label+"-k")] = rapid.SampledFrom(vals).Draw(rt, label+"-v")
		}
		return m
	}
	cs := c18Case{Kind: "faults"}
	nd := rapid.IntRange(1, 3).Draw(rt, "ndesc")
	for i := 0; i < nd; i++ {
		op := ops[0]
		if rapid.IntRange(0, 4).Draw(rt, "otherop") == 0 {
			op = ops[1]
		}
		cs.Descs = append(cs.Descs, c18Desc{Op: op, Params: genParams("dp", 2), Count: int64(rapid.SampledFrom([]int{-1, 0, 1, 1, 2, 3, 5, 8, 20}).Draw(rt, "count"))})
	}
	nc := rapid.IntRange(1, 64).Draw(rt, "ncalls")
	// most calls share one parameter map so that they contend for the same descriptions
	base := genParams("base", 3)
	for i := 0; i < nc; i++ {
		c := c18Call{Op: ops[0], Params: base}
		switch rapid.IntRange(0, 5).Draw(rt, "callkind") {
		case 0:
			c.Params = genParams("cp", 3)
		case 1:
			c.Op = ops[1]
		}
		cs.Calls = append(cs.Calls, c)
	}
	cs.Goroutines = rapid.SampledFrom([]int{1, 2, 2, 4, 8, 16}).Draw(rt, "goroutines")
	return cs
}

func c18NonTrivial(cs c18Case) bool {
	if cs.Goroutines < 2 {
		return false
	}
	for _, d := range cs.Descs {
		if d.Count <= 0 {
			continue
		}
		m := 0
		for _, c := range cs.Calls {
			if descMatches(d, c) {
				m++
			}
		}
		if int64(m) > d.Count {
			return true
		}
	}
	return false
}

func TestC18(t *testing.T) {
	defer reportFailure(t, "C18")
	repeats := pick(40, 300)
	t.Run("set", func(t *testing.T) {
		rapid.Check(t, func(rt *rapid.T) {
			cs := genC18Case(rt)
			cs.Repeats = repeats
			nt := c18NonTrivial(cs)
			stats.C.Eval(stats.Hash(cs), nt, func() any { return cs })
			stats.C.Class("trials", repeats)
			for r := 0; r < repeats; r++ {
				if rule, detail := runC18Trial(cs); rule != "" {
					failWith(rt, failure{Rule: rule, Detail: fmt.Sprintf("trial %d: %s", r, detail), Sig: map[string]any{"rule": rule}, Replay: cs})
				}
			}
		})
	})
	t.Run("interceptor", func(t *testing.T) { c18Interceptor(t) })
	t.Run("server", func(t *testing.T) { c18Server(t) })
}

func init() {
	replayers["faults"] = func(t *testing.T, prop string, raw json.RawMessage) {
		var cs c18Case
		if err := json.Unmarshal(raw, &cs); err != nil {
			t.Fatal(err)
		}
		n := cs.Repeats * 20
		if n < 2000 {
			n = 2000
		}
		for r := 0; r < n; r++ {
			if rule, detail := runC18Trial(cs); rule != "" {
				violate(t, prop, failure{Rule: rule, Detail: fmt.Sprintf("trial %d: %s", r, detail), Sig: map[string]any{"rule": rule}})
				return
			}
		}
	}
}

// c18Interceptor drives the gRPC unary interceptor directly with sequences of
// different request types: a fault must fire only on requests whose string
// fields equal the injected parameters (no leak between pooled maps).
func c18Interceptor(t *testing.T) {
	type reqSpec struct {
		method string
		msg    any
		fields map[string]string // expected parameters (text names)
	}
	mk := func(kind int, v string) reqSpec {
		switch kind {
		case 0:
			return reqSpec{"/google.pubsub.v1.Subscriber/Pull", &pubsubpb.PullRequest{Subscription: v}, map[string]string{"subscription": v}}
		case 1:
			return reqSpec{"/google.pubsub.v1.Publisher/Publish", &pubsubpb.PublishRequest{Topic: v}, map[string]string{"topic": v}}
		case 2:
			return reqSpec{"/google.pubsub.v1.Subscriber/CreateSnapshot", &pubsubpb.CreateSnapshotRequest{Name: v, Subscription: v + "s"}, map[string]string{"name": v, "subscription": v + "s"}}
		case 3:
			return reqSpec{"/google.pubsub.v1.Subscriber/Pull", &pubsubpb.PullRequest{}, map[string]string{}}
		default:
			return reqSpec{"/google.pubsub.v1.Publisher/GetTopic", &pubsubpb.GetTopicRequest{Topic: v}, map[string]string{"topic": v}}
		}
	}
	rapid.Check(t, func(rt *rapid.T) {
		set := faults.NewSet("verif_c18i")
		icpt := mbgrpc.UnaryFaultInjector(set)
		// one injected fault
		fk := rapid.IntRange(0, 4).Draw(rt, "fkind")
		fv := rapid.SampledFrom([]string{"a", "a", "b", "b", ""}).Draw(rt, "fval")
		target := mk(fk, fv)
		op := target.method[len(target.method)-len(methodName(target.method)):]
		count := rapid.IntRange(1, 4).Draw(rt, "count")
		params := map[string]string{}
		for k, v := range target.fields {
			if rapid.Bool().Draw(rt, "usefield") {
				params[k] = v
			}
		}
		if rapid.Bool().Draw(rt, "useservice") {
			params[serviceName(target.method)] = op
		}
		set.Add(faults.Description{Operation: op, Parameters: params, Count: int64(count),
			OnFault: func(faults.Description, faults.Parameters) error { return status.Error(codes.Unavailable, "injected") }})
		n := rapid.IntRange(1, 12).Draw(rt, "nreq")
		fired := 0
		var log []string
		for i := 0; i < n; i++ {
			r := mk(rapid.IntRange(0, 4).Draw(rt, "kind"), rapid.SampledFrom([]string{"a", "b", ""}).Draw(rt, "val"))
			called := false
			_, err := icpt(context.Background(), r.msg, &grpc.UnaryServerInfo{FullMethod: r.method}, func(ctx context.Context, req any) (any, error) { called = true; return nil, nil })
			// the parameters of a request: service => method plus every populated string field
			exp := map[string]string{serviceName(r.method): methodName(r.method)}
			for k, v := range r.fields {
				if v != "" {
					exp[k] = v
				}
			}
			match := methodName(r.method) == op
			for k, v := range params {
				if w, ok := exp[k]; !ok || w != v {
					match = false
				}
			}
			wantFire := match && fired < count
			log = append(log, fmt.Sprintf("%s%v->%v", methodName(r.method), r.fields, err != nil))
			if (err != nil) != wantFire {
				failWith(rt, failure{Rule: "interceptor-match", Detail: fmt.Sprintf("fault {op %s params %v count %d}: request %d %s %v: failed=%v, expected %v (sequence %v)", op, params, count, i, r.method, r.fields, err != nil, wantFire, log), Replay: map[string]any{"kind": "none"}})
			}
			if err != nil {
				fired++
				if called {
					failWith(rt, failure{Rule: "interceptor-called-handler", Detail: "a faulted request still reached the handler", Replay: map[string]any{"kind": "none"}})
				}
			}
		}
		stats.C.Eval("icpt:"+stats.Hash(log), fired > 0 && fired < n, nil)
		stats.C.Class("interceptor-sequences", 1)
	})
}

func methodName(full string) string {
	for i := len(full) - 1; i >= 0; i-- {
		if full[i] == '/' {
			return full[i+1:]
		}
	}
	return full
}

func serviceName(full string) string {
	s := full[1:]
	for i := 0; i < len(s); i++ {
		if s[i] == '/' {
			return s[:i]
		}
	}
	return s
}

// c18Server injects a fault into the running server and counts the failed
// calls made by concurrent clients.
func c18Server(t *testing.T) {
	s := getSUT(t)
	defer closeSUT()
	ctx := context.Background()
	rapid.Check(t, func(rt *rapid.T) {
		if err := s.Reset(seed(), true); err != nil {
			rt.Fatalf("reset: %v", err)
		}
		for _, tn := range []string{"projects/p/topics/a", "projects/p/topics/b"} {
			if _, err := s.Pub.CreateTopic(ctx, &pubsubpb.Topic{Name: tn}); err != nil {
				rt.Fatalf("create: %v", err)
			}
		}
		count := rapid.IntRange(1, 6).Draw(rt, "count")
		s.Faults.Add(faults.Description{Operation: "GetTopic", Parameters: map[string]string{"topic": "projects/p/topics/a"}, Count: int64(count),
			OnFault: func(faults.Description, faults.Parameters) error {
				return status.Error(codes.Unavailable, "verif injected")
			}})
		nA := rapid.IntRange(0, 12).Draw(rt, "na")
		nB := rapid.IntRange(0, 6).Draw(rt, "nb")
		var wg sync.WaitGroup
		var failA, failB int64
		call := func(topic string, ctr *int64) {
			defer wg.Done()
			_, err := s.Pub.GetTopic(ctx, &pubsubpb.GetTopicRequest{Topic: topic})
			if err != nil {
				atomic.AddInt64(ctr, 1)
			}
		}
		for i := 0; i < nA; i++ {
			wg.Add(1)
			go call("projects/p/topics/a", &failA)
		}
		for i := 0; i < nB; i++ {
			wg.Add(1)
			go call("projects/p/topics/b", &failB)
		}
		wg.Wait()
		want := count
		if nA < want {
			want = nA
		}
		// drain what is left so the next case starts clean
		for i := 0; i < count; i++ {
			_, _ = s.Pub.GetTopic(ctx, &pubsubpb.GetTopicRequest{Topic: "projects/p/topics/a"})
		}
		stats.C.Eval("srv:"+stats.Hash([]int{count, nA, nB}), nA > count, nil)
		stats.C.Class("server-trials", 1)
		if int(failA) != want || failB != 0 {
			failWith(rt, failure{Rule: "server-count", Detail: fmt.Sprintf("fault {GetTopic topic=a count %d}: %d concurrent calls for a -> %d failed (expected %d); %d calls for b -> %d failed (expected 0)", count, nA, failA, want, nB, failB), Replay: map[string]any{"kind": "none"}})
		}
		left := s.Faults.Current()
		if len(left) != 0 {
			var ks []string
			for k := range left {
				ks = append(ks, k)
			}
			sort.Strings(ks)
			failWith(rt, failure{Rule: "server-listing", Detail: fmt.Sprintf("exhausted fault still listed: %v", ks), Replay: map[string]any{"kind": "none"}})
		}
	})
}
