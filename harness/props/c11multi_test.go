package props

import (
	"context"
	"encoding/json"
	"fmt"
	"sync"
	"testing"
	"time"

	"cloud.google.com/go/pubsub/apiv1/pubsubpb"
	"pgregory.net/rapid"

	"verif/stats"
	"verif/sut"
)

// C11 with several real StreamingPull streams on ONE subscription while a
// publisher is publishing (real clock, real concurrency): every stream keeps
// to its own max_outstanding_messages at every moment (the client counts what
// it has received and not yet answered), every message reaches exactly one
// stream exactly once within the run (far shorter than the lease), and all
// messages arrive: no stream may sit on free capacity while messages wait.

type c11mCase struct {
	Kind     string `json:"kind"`   // "multistream"
	Limits   []int  `json:"limits"` // max_outstanding_messages per stream
	NMsgs    int    `json:"nmsgs"`
	Batch    int    `json:"batch"`
	AckDelay []int  `json:"ack_delay_ms"` // per stream: how long the client holds a message
	Outside  []bool `json:"outside"`      // per stream: acknowledge with Acknowledge calls outside the stream
}

func runC11m(s *sut.SUT, cs c11mCase) (rule, detail string) {
	ctx := context.Background()
	if err := s.Reset(seed(), false); err != nil {
		return "harness", err.Error()
	}
	const topic, sub = "projects/p/topics/tm", "projects/p/subscriptions/sm"
	if _, err := s.Pub.CreateTopic(ctx, &pubsubpb.Topic{Name: topic}); err != nil {
		return "harness", err.Error()
	}
	if _, err := s.Sub.CreateSubscription(ctx, &pubsubpb.Subscription{Name: sub, Topic: topic}); err != nil {
		return "harness", err.Error()
	}
	sctx, cancel := context.WithCancel(ctx)
	defer func() {
		cancel()
		s.WaitStreamsIdle(5 * time.Second)
	}()
	var mu sync.Mutex
	got := map[string][]string{} // message id -> "stream/attempt"
	out := make([]int, len(cs.Limits))
	var viol string
	start := time.Now()
	for i := range cs.Limits {
		st, err := s.Sub.StreamingPull(sctx)
		if err != nil {
			return "harness", err.Error()
		}
		if err := st.Send(&pubsubpb.StreamingPullRequest{Subscription: sub, StreamAckDeadlineSeconds: 60, MaxOutstandingMessages: int64(cs.Limits[i]), MaxOutstandingBytes: 1 << 20}); err != nil {
			return "harness", err.Error()
		}
		acks := make(chan string, 1024)
		go func(i int) { // the client's answering side (one sender per stream)
			for {
				select {
				case <-sctx.Done():
					return
				case id := <-acks:
					if d := cs.AckDelay[i]; d > 0 {
						time.Sleep(time.Duration(d) * time.Millisecond)
					}
					mu.Lock()
					out[i]--
					mu.Unlock()
					if cs.Outside[i] {
						for try := 0; try < 50; try++ {
							if _, err := s.Sub.Acknowledge(ctx, &pubsubpb.AcknowledgeRequest{Subscription: sub, AckIds: []string{id}}); err == nil {
								break
							}
							time.Sleep(2 * time.Millisecond)
						}
					} else {
						_ = st.Send(&pubsubpb.StreamingPullRequest{AckIds: []string{id}})
					}
				}
			}
		}(i)
		go func(i int) {
			for {
				resp, err := st.Recv()
				if err != nil {
					return
				}
				mu.Lock()
				for _, rm := range resp.ReceivedMessages {
					out[i]++
					got[rm.Message.MessageId] = append(got[rm.Message.MessageId], fmt.Sprintf("stream %d attempt %d at +%v", i, rm.DeliveryAttempt, time.Since(start).Round(time.Millisecond)))
					if out[i] > cs.Limits[i] && viol == "" {
						viol = fmt.Sprintf("too-many-outstanding: stream %d holds %d unanswered messages, its max_outstanding_messages is %d (%d streams on one subscription, %d messages)", i, out[i], cs.Limits[i], len(cs.Limits), cs.NMsgs)
					}
				}
				mu.Unlock()
				for _, rm := range resp.ReceivedMessages {
					acks <- rm.AckId
				}
			}
		}(i)
	}
	published := map[string]bool{}
	for i := 0; i < cs.NMsgs; i += cs.Batch {
		req := &pubsubpb.PublishRequest{Topic: topic}
		for j := i; j < i+cs.Batch && j < cs.NMsgs; j++ {
			req.Messages = append(req.Messages, &pubsubpb.PubsubMessage{Data: []byte(fmt.Sprintf(`{"i":%d}`, j))})
		}
		var resp *pubsubpb.PublishResponse
		var err error
		for try := 0; try < 50; try++ {
			if resp, err = s.Pub.Publish(ctx, req); err == nil {
				break
			}
			time.Sleep(2 * time.Millisecond)
		}
		if err != nil {
			return "harness", "publish: " + err.Error()
		}
		for _, id := range resp.MessageIds {
			published[id] = true
		}
	}
	// everything has to arrive; the time it needs at most: each message is held
	// AckDelay by a stream with limit L
	slowest := 0.0
	for i := range cs.Limits {
		slowest += float64(cs.Limits[i]) / float64(cs.AckDelay[i]+1)
	}
	budget := 3*time.Second + time.Duration(float64(cs.NMsgs)/slowest)*time.Millisecond*3
	deadline := time.Now().Add(budget)
	for time.Now().Before(deadline) {
		mu.Lock()
		n, v := len(got), viol
		mu.Unlock()
		if v != "" || n >= len(published) {
			break
		}
		time.Sleep(2 * time.Millisecond)
	}
	time.Sleep(30 * time.Millisecond) // anything handed out twice shows up now
	mu.Lock()
	defer mu.Unlock()
	if viol != "" {
		return "too-many-outstanding", viol
	}
	if time.Since(start) > 9*time.Second {
		return "harness", "run took too long for the default lease"
	}
	for id, ss := range got {
		if len(ss) > 1 {
			return "double-delivery", fmt.Sprintf("message %s was sent %d times within %v (default lease 10 s, nothing nacked): %v", id, len(ss), time.Since(start).Round(time.Millisecond), ss)
		}
	}
	if len(got) < len(published) {
		return "stall", fmt.Sprintf("%d of %d messages had not been sent on any of the %d streams (limits %v, clients hold a message %v ms) %v after the last publish although every stream had free capacity again", len(published)-len(got), len(published), len(cs.Limits), cs.Limits, cs.AckDelay, budget)
	}
	return "", ""
}

func TestC11MultiStream(t *testing.T) {
	defer reportFailure(t, "C11")
	s := getSUT(t)
	defer closeSUT()
	rapid.Check(t, func(rt *rapid.T) {
		cs := c11mCase{Kind: "multistream"}
		ns := rapid.IntRange(2, 3).Draw(rt, "streams")
		for i := 0; i < ns; i++ {
			cs.Limits = append(cs.Limits, rapid.SampledFrom([]int{1, 1, 2, 3, 10}).Draw(rt, "limit"))
			cs.AckDelay = append(cs.AckDelay, rapid.SampledFrom([]int{0, 0, 1, 5}).Draw(rt, "hold"))
			cs.Outside = append(cs.Outside, rapid.IntRange(0, 2).Draw(rt, "outside") == 0)
		}
		cs.NMsgs = rapid.SampledFrom([]int{10, 30, 60}).Draw(rt, "nmsgs")
		cs.Batch = rapid.SampledFrom([]int{1, 5, 20}).Draw(rt, "batch")
		if !oneIn(rt, pick(4, 2)) {
			return
		}
		rule, detail := runC11m(s, cs)
		stats.C.Eval(stats.Hash(cs), true, func() any { return cs })
		stats.C.Class("multi-stream-runs", 1)
		if rule == "harness" {
			stats.C.Class("harness-skip", 1)
			stats.C.Note("multi-stream run skipped: %s", detail)
			return
		}
		if rule == "stall" {
			n := 1
			for k := 0; k < 2; k++ {
				if r2, _ := runC11m(s, cs); r2 == "stall" {
					n++
				}
			}
			if n < 3 {
				stats.C.Class("inconclusive-stall", 1)
				stats.C.Note("inconclusive: multi-stream run stalled %d of 3 times: %s", n, detail)
				return
			}
		}
		if rule != "" {
			failWith(rt, failure{Rule: rule, Detail: detail, Sig: map[string]any{"rule": rule, "multi_stream": true}, Replay: cs})
		}
	})
}

func init() {
	replayers["multistream"] = func(t *testing.T, prop string, raw json.RawMessage) {
		var cs c11mCase
		_ = json.Unmarshal(raw, &cs)
		s := getSUT(t)
		defer closeSUT()
		for k := 0; k < 10; k++ {
			if rule, detail := runC11m(s, cs); rule != "" && rule != "harness" && rule != "stall" {
				violate(t, prop, failure{Rule: rule, Detail: detail, Sig: map[string]any{"rule": rule, "multi_stream": true}, Replay: cs})
				return
			}
		}
	}
}
