package props

import (
	"encoding/json"
	"fmt"
	"os"
	"path/filepath"
	"testing"
	"time"

	"pgregory.net/rapid"

	"verif/hist"
	"verif/stats"
	"verif/sut"
)

type histCase struct {
	Kind    string    `json:"kind"` // "history"
	Profile string    `json:"profile"`
	Armed   []string  `json:"armed"`
	Drain   bool      `json:"drain"`
	Seed    int64     `json:"seed"`
	Ops     []hist.Op `json:"ops"`
}

func opStrings(ops []hist.Op) []string {
	out := make([]string, len(ops))
	for i, o := range ops {
		out[i] = o.String()
	}
	return out
}

type e1Spec struct {
	prop       string
	profile    *hist.Profile
	armed      []string
	drain      bool
	nontrivial func(r *hist.Runner) bool
}

var sharedSUT *sut.SUT
var knownReported = map[string]bool{}

func getSUT(t testing.TB) *sut.SUT {
	if sharedSUT == nil {
		s, err := sut.New()
		if err != nil {
			t.Fatalf("boot SUT: %v", err)
		}
		sharedSUT = s
	}
	return sharedSUT
}

func closeSUT() {
	if sharedSUT != nil {
		sharedSUT.Close()
		sharedSUT = nil
	}
}

func mergeCounters(r *hist.Runner, prefix string) {
	for k, v := range r.M.C {
		if len(k) > 4 && k[:4] == "max-" {
			continue
		}
		stats.C.Class(prefix+k, v)
	}
}

func violSig(v *hist.Viol) map[string]any {
	sig := map[string]any{}
	for k, x := range v.Sig {
		sig[k] = x
	}
	return sig
}

// runE1 runs one generated history (+ optional drain) and applies the oracles.
func runE1(rt *rapid.T, s *sut.SUT, sp e1Spec) {
	r := hist.Run(rt, s, sp.profile, seed(), sp.armed...)
	nBefore := len(r.Ops)
	if r.Viol == nil && r.Diverged == "" && sp.drain {
		r.Drain(80)
	}
	hc := histCase{Kind: "history", Profile: sp.profile.Name, Armed: sp.armed, Drain: sp.drain, Seed: seed(), Ops: r.Ops[:nBefore]}
	if r.Diverged != "" {
		stats.C.Class("diverged", 1)
		stats.C.Note("diverged: %s", r.Diverged)
		stats.C.EvalN(1)
		return
	}
	nt := sp.nontrivial == nil || sp.nontrivial(r)
	stats.C.Eval(stats.Hash(r.Ops), nt, func() any {
		return map[string]any{"profile": sp.profile.Name, "ops": opStrings(r.Ops)}
	})
	mergeCounters(r, "")
	if len(r.JobErrs) > 0 {
		stats.C.Class("job-errors", len(r.JobErrs))
		stats.C.Note("job error: %s", r.JobErrs[0])
	}
	for id, v := range r.KnownHits {
		stats.C.Class("known/"+id, 1)
		if !knownReported[id] {
			knownReported[id] = true
			vv := v
			stats.C.Violate(stats.Violation{Property: sp.prop, Rule: v.Rule, Detail: v.Detail, Signature: violSig(&vv), Replay: writeReplay(sp.prop, &failure{Rule: v.Rule, Detail: v.Detail, Sig: violSig(&vv), Replay: hc})})
		}
	}
	if r.Viol != nil {
		failWith(rt, failure{Rule: r.Viol.Rule, Detail: r.Viol.Detail + "\nhistory: " + fmt.Sprint(opStrings(r.Ops)), Sig: violSig(r.Viol), Replay: hc})
	}
}

var profiles = map[string]*hist.Profile{}

func init() {
	replayers["history"] = func(t *testing.T, prop string, raw json.RawMessage) {
		var hc histCase
		if err := json.Unmarshal(raw, &hc); err != nil {
			t.Fatal(err)
		}
		s := getSUT(t)
		defer closeSUT()
		r := hist.Replay(s, hc.Ops, hc.Seed, hc.Armed...)
		if r.Viol == nil && r.Diverged == "" && hc.Drain {
			r.Drain(80)
		}
		if r.Diverged != "" {
			t.Logf("replay diverged: %s", r.Diverged)
		}
		if r.Viol != nil {
			violate(t, prop, failure{Rule: r.Viol.Rule, Detail: r.Viol.Detail, Sig: violSig(r.Viol)})
		}
	}
}

func opCount(r *hist.Runner, kinds ...string) int {
	n := 0
	for _, k := range kinds {
		n += r.M.C["op/"+k]
	}
	return n
}

var (
	ms  = time.Millisecond
	sec = time.Second
)

// runKnownCanaries replays the committed canary histories of the running
// property (/verif/known/<prop>-*.json): a listed known finding that still
// reproduces is recorded (the driver prints its KNOWN-FINDING line); one that
// no longer reproduces is simply silent.
func runKnownCanaries(t *testing.T, prop string) {
	dir := os.Getenv("VERIF_KNOWN_DIR")
	if dir == "" {
		dir = "/verif/known"
	}
	files, _ := filepath.Glob(filepath.Join(dir, prop+"-*.json"))
	for _, f := range files {
		b, err := os.ReadFile(f)
		if err != nil {
			continue
		}
		var d replayDoc
		if json.Unmarshal(b, &d) != nil {
			continue
		}
		var hc histCase
		if json.Unmarshal(d.Case, &hc) != nil || hc.Kind != "history" {
			continue
		}
		s := getSUT(t)
		r := hist.Replay(s, hc.Ops, hc.Seed, hc.Armed...)
		if r.Viol == nil && r.Diverged == "" && hc.Drain {
			r.Drain(80)
		}
		stats.C.EvalN(1)
		stats.C.Class("canary/"+filepath.Base(f), 1)
		for id, v := range r.KnownHits {
			stats.C.Class("known/"+id, 1)
			if !knownReported[id] {
				knownReported[id] = true
				vv := v
				stats.C.Violate(stats.Violation{Property: prop, Rule: v.Rule, Detail: v.Detail, Signature: violSig(&vv), Replay: f})
			}
		}
		if r.Viol != nil {
			violate(t, prop, failure{Rule: r.Viol.Rule, Detail: "canary " + filepath.Base(f) + ": " + r.Viol.Detail, Sig: violSig(r.Viol), Replay: hc})
			t.FailNow() // rapid refuses to run on a test that has already failed
		}
	}
}
