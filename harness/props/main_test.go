package props

import (
	"encoding/json"
	"fmt"
	"os"
	"path/filepath"
	"strconv"
	"testing"

	"github.com/rs/zerolog"
	"pgregory.net/rapid"

	"verif/stats"
)

func TestMain(m *testing.M) {
	zerolog.SetGlobalLevel(zerolog.Disabled)
	stats.C.Property = os.Getenv("VERIF_PROP")
	rc := m.Run()
	stats.C.Flush()
	os.Exit(rc)
}

func tier() string {
	if v := os.Getenv("VERIF_TIER"); v != "" {
		return v
	}
	return "quick"
}

func thorough() bool { return tier() == "thorough" }

func seed() int64 {
	v, _ := strconv.ParseInt(os.Getenv("VERIF_SEED"), 10, 64)
	if v == 0 {
		v = 1
	}
	return v
}

func scale() float64 {
	v, err := strconv.ParseFloat(os.Getenv("VERIF_SCALE"), 64)
	if err != nil || v <= 0 {
		return 1
	}
	return v
}

func shard() (int, int) {
	i, _ := strconv.Atoi(os.Getenv("VERIF_SHARD"))
	n, _ := strconv.Atoi(os.Getenv("VERIF_SHARDS"))
	if n <= 0 {
		n = 1
	}
	return i, n
}

// pick returns q in the quick tier and th in the thorough tier, scaled.
func pick(q, th int) int {
	n := q
	if thorough() {
		n = th
	}
	n = int(float64(n) * scale())
	if n < 1 {
		n = 1
	}
	return n
}

// failure is what a property records just before it fails; the last one
// recorded is rapid's minimal counterexample (the shrunk case is run last).
type failure struct {
	Rule   string
	Detail string
	Sig    map[string]any
	Replay any // JSON-able replay payload (includes "kind")
}

var lastFail *failure

type fataler interface {
	Fatalf(string, ...any)
}

func failWith(t fataler, f failure) {
	lastFail = &f
	t.Fatalf("VERIF-FAIL rule=%s: %s", f.Rule, f.Detail)
}

// reportFailure is deferred by every property test: it turns the recorded
// minimal failure into a replay file and a violation record for the driver.
func reportFailure(t *testing.T, prop string) {
	if !t.Failed() {
		return
	}
	f := lastFail
	lastFail = nil
	if f == nil && directViolated {
		return // already recorded by violate()
	}
	if f == nil {
		stats.C.Violate(stats.Violation{Property: prop, Rule: "unclassified", Detail: "test " + t.Name() + " failed without a recorded counterexample (see log)"})
		return
	}
	stats.C.Violate(stats.Violation{Property: prop, Rule: f.Rule, Detail: f.Detail, Signature: f.Sig, Replay: writeReplay(prop, f)})
}

func writeReplay(prop string, f *failure) string {
	dir := os.Getenv("VERIF_REPLAY_DIR")
	if dir == "" || f.Replay == nil {
		return ""
	}
	doc := map[string]any{"property": prop, "rule": f.Rule, "detail": f.Detail, "signature": f.Sig, "case": f.Replay}
	b, err := json.MarshalIndent(doc, "", " ")
	if err != nil {
		return ""
	}
	p := filepath.Join(dir, fmt.Sprintf("%s-%s.json", prop, stats.Hash(f.Replay)))
	if os.WriteFile(p, b, 0o644) != nil {
		return ""
	}
	return p
}

var directViolated bool

// direct violation (outside rapid): recorded and the test is failed.
func violate(t *testing.T, prop string, f failure) {
	directViolated = true
	stats.C.Violate(stats.Violation{Property: prop, Rule: f.Rule, Detail: f.Detail, Signature: f.Sig, Replay: writeReplay(prop, &f)})
	t.Errorf("VERIF-FAIL rule=%s: %s", f.Rule, f.Detail)
}

type replayDoc struct {
	Property string          `json:"property"`
	Rule     string          `json:"rule"`
	Case     json.RawMessage `json:"case"`
}

var replayers = map[string]func(t *testing.T, prop string, raw json.RawMessage){}

// TestReplay re-executes a saved counterexample through the plain
// interpreter / oracle, bypassing rapid.
func TestReplay(t *testing.T) {
	p := os.Getenv("VERIF_REPLAY")
	if p == "" {
		t.Skip("no VERIF_REPLAY")
	}
	b, err := os.ReadFile(p)
	if err != nil {
		t.Fatal(err)
	}
	var d replayDoc
	if err := json.Unmarshal(b, &d); err != nil {
		t.Fatal(err)
	}
	var k struct {
		Kind string `json:"kind"`
	}
	_ = json.Unmarshal(d.Case, &k)
	r := replayers[k.Kind]
	if r == nil {
		t.Fatalf("no replayer for kind %q", k.Kind)
	}
	r(t, d.Property, d.Case)
}

var _ = rapid.Check

// oneIn reports true for about one case in n. rapid's integer generators
// favour small and boundary values, so the drawn value is mixed first.
func oneIn(rt *rapid.T, n int) bool {
	x := rapid.Uint64().Draw(rt, "sample") + 0x9e3779b97f4a7c15
	x ^= x >> 30
	x *= 0xbf58476d1ce4e5b9
	x ^= x >> 27
	x *= 0x94d049bb133111eb
	x ^= x >> 31
	return x%uint64(n) == 0
}
