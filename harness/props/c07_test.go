package props

import (
	"context"
	"fmt"
	"sort"
	"strings"
	"testing"
	"time"

	"cloud.google.com/go/pubsub/apiv1/pubsubpb"
	"pgregory.net/rapid"

	"verif/filt"
	"verif/stats"
	"verif/sut"
)

// c07NonTrivial: >= 2 operators and the map makes at least one leaf true and
// one leaf false.
func c07NonTrivial(c *filt.Cond, m map[string]string) bool {
	if c.Operators() < 2 {
		return false
	}
	var tr, fa bool
	for _, l := range c.Leaves() {
		if l.Eval(m) {
			tr = true
		} else {
			fa = true
		}
	}
	return tr && fa
}

func c07Check(text string, want *filt.Cond, maps []map[string]string) (string, string) {
	o := parseSafe(text)
	if o.Panic != nil {
		return "parse-panic", fmt.Sprintf("parsing %q panicked: %v", text, o.Panic)
	}
	if o.Err != nil {
		return "reject-valid", fmt.Sprintf("valid filter %q rejected: %v", text, o.Err)
	}
	return checkAccepted(text, o.F, want, maps)
}

func replayC07(t *testing.T, fc filterCase) {
	toks, ok := filt.Lex(fc.Text)
	if !ok {
		t.Fatalf("replay text outside the lexical subset: %q", fc.Text)
	}
	v, want := filt.Recognise(toks)
	if v != filt.IN {
		t.Fatalf("replay text is not IN: %q", fc.Text)
	}
	if rule, detail := c07Check(fc.Text, want, fc.Maps); rule != "" {
		violate(t, "C07", failure{Rule: rule, Detail: detail})
	}
}

func TestC07(t *testing.T) {
	defer reportFailure(t, "C07")

	// (a) differential against the reference evaluator, random part
	t.Run("differential", func(t *testing.T) {
		rapid.Check(t, func(rt *rapid.T) {
			c := filt.GenCond(rt, 4, 12)
			toks := c.Tokens(filt.GenSpelling(rt))
			text := filt.Join(toks, filt.GenSeps(rt, len(toks)))
			if len(text) > maxFilterBytes {
				stats.C.Exclude("oversize", 1)
				return
			}
			maps := drawMaps(rt, c, 4)
			fc := filterCase{Kind: "filter", Text: text, Verdict: "IN", Maps: maps}
			for _, m := range maps {
				stats.C.Eval(stats.Hash([]any{text, m}), c07NonTrivial(c, m), func() any { return map[string]any{"filter": text, "attributes": m, "expected": c.Eval(m)} })
			}
			if rule, detail := c07Check(text, c, maps); rule != "" {
				failWith(rt, failure{Rule: rule, Detail: detail, Sig: sigForFilter(rule, text), Replay: fc})
			}
		})
	})

	// (b) metamorphic laws on the real parser + evaluator alone
	t.Run("laws", func(t *testing.T) {
		rapid.Check(t, func(rt *rapid.T) {
			c := filt.GenCond(rt, 3, 8)
			maps := drawMaps(rt, c, 4)
			base := realEval(rt, c, maps)
			variants := map[string]*filt.Cond{
				"double-negation": {First: &filt.Term{Not: true, Sub: &filt.Cond{First: &filt.Term{Not: true, Sub: c}}}},
				"parenthesise":    {First: &filt.Term{Sub: c}},
				"commute":         commute(rt, c),
				"de-morgan":       deMorgan(c),
				"associate":       associate(c),
			}
			names := make([]string, 0, len(variants))
			for k := range variants {
				names = append(names, k)
			}
			sort.Strings(names)
			for _, law := range names {
				vc := variants[law]
				got := realEval(rt, vc, maps)
				stats.C.Class("law/"+law, 1)
				for i := range maps {
					stats.C.Eval(stats.Hash([]any{law, c.Canon(), maps[i]}), c07NonTrivial(c, maps[i]), nil)
					if got[i] != base[i] {
						text := filt.Join(c.Tokens(nil), nil)
						vtext := filt.Join(vc.Tokens(nil), nil)
						failWith(rt, failure{
							Rule:   "law-" + law,
							Detail: fmt.Sprintf("%s: %q gives %v but %q gives %v on %v", law, text, base[i], vtext, got[i], maps[i]),
							Replay: filterCase{Kind: "filter", Text: vtext, Verdict: "IN", Maps: maps},
						})
					}
				}
			}
		})
	})

	// (c) bounded-exhaustive differential
	t.Run("exhaustive", func(t *testing.T) {
		n, bad := exhaustiveC07(func(text string, c *filt.Cond, maps []map[string]string) bool {
			if rule, detail := c07Check(text, c, maps); rule != "" {
				violate(t, "C07", failure{Rule: rule, Detail: detail, Sig: sigForFilter(rule, text), Replay: filterCase{Kind: "filter", Text: text, Verdict: "IN", Maps: maps}})
				return false
			}
			return true
		})
		stats.C.Class("exhaustive/filters", n)
		if bad == 0 {
			stats.C.Note("bounded-exhaustive part: %d filters (all shapes <= 2 leaves over 3 names x 4 values x all 125 maps; all 3-leaf shapes over 2 names x 16 maps) enumerated completely", n)
		}
	})
}

// realEval renders, parses with the code under test and evaluates on every map.
func realEval(rt *rapid.T, c *filt.Cond, maps []map[string]string) []bool {
	text := filt.Join(c.Tokens(nil), nil)
	o := parseSafe(text)
	if o.Panic != nil || o.Err != nil {
		failWith(rt, failure{Rule: "reject-valid", Detail: fmt.Sprintf("valid filter %q: err=%v panic=%v", text, o.Err, o.Panic), Sig: sigForFilter("reject-valid", text), Replay: filterCase{Kind: "filter", Text: text, Verdict: "IN"}})
	}
	out := make([]bool, len(maps))
	for i, m := range maps {
		r, err, pan := evalSafe(o.F, m)
		if err != nil || pan != nil {
			failWith(rt, failure{Rule: "evaluate-error", Detail: fmt.Sprintf("Evaluate(%q,%v): err=%v panic=%v", text, m, err, pan), Replay: filterCase{Kind: "filter", Text: text, Verdict: "IN", Maps: maps}})
		}
		out[i] = r
	}
	return out
}

func commute(rt *rapid.T, c *filt.Cond) *filt.Cond {
	if c.Op == "" {
		return c
	}
	terms := append([]*filt.Term{c.First}, c.Rest...)
	perm := rapid.Permutation(terms).Draw(rt, "perm")
	return &filt.Cond{First: perm[0], Op: c.Op, Rest: perm[1:]}
}

func negTerm(t *filt.Term) *filt.Term {
	return &filt.Term{Not: !t.Not, Basic: t.Basic, Sub: t.Sub}
}

// deMorgan rewrites a AND b AND .. as NOT(NOT a OR NOT b ..) (and dually).
func deMorgan(c *filt.Cond) *filt.Cond {
	if c.Op == "" {
		return c
	}
	op := "OR"
	if c.Op == "OR" {
		op = "AND"
	}
	inner := &filt.Cond{First: negTerm(c.First), Op: op}
	for _, t := range c.Rest {
		inner.Rest = append(inner.Rest, negTerm(t))
	}
	return &filt.Cond{First: &filt.Term{Not: true, Sub: inner}}
}

// associate rewrites a op b op c as a op (b op c).
func associate(c *filt.Cond) *filt.Cond {
	if len(c.Rest) < 2 {
		return c
	}
	tail := &filt.Cond{First: c.Rest[0], Op: c.Op, Rest: c.Rest[1:]}
	return &filt.Cond{First: c.First, Op: c.Op, Rest: []*filt.Term{{Sub: tail}}}
}

// exhaustiveC07 enumerates the bounded space described in DESIGN.md (C07 B).
func exhaustiveC07(check func(text string, c *filt.Cond, maps []map[string]string) bool) (n, bad int) {
	mkBasics := func(names, values []string) []*filt.Basic {
		var out []*filt.Basic
		for _, nm := range names {
			out = append(out, &filt.Basic{Kind: filt.Has, Name: nm})
			for _, k := range []filt.Kind{filt.Eq, filt.Ne, filt.Prefix} {
				for _, v := range values {
					out = append(out, &filt.Basic{Kind: k, Name: nm, Value: v})
				}
			}
		}
		return out
	}
	mkTerms := func(bs []*filt.Basic) []*filt.Term {
		var out []*filt.Term
		for _, b := range bs {
			out = append(out, &filt.Term{Basic: b}, &filt.Term{Not: true, Basic: b})
		}
		return out
	}
	mkMaps := func(names, values []string) []map[string]string {
		maps := []map[string]string{{}}
		for _, nm := range names {
			var next []map[string]string
			for _, m := range maps {
				next = append(next, m)
				for _, v := range values {
					m2 := map[string]string{nm: v}
					for k, vv := range m {
						m2[k] = vv
					}
					next = append(next, m2)
				}
			}
			maps = next
		}
		return maps
	}
	run := func(c *filt.Cond, maps []map[string]string) {
		n++
		text := filt.Join(c.Tokens(nil), nil)
		for _, m := range maps {
			stats.C.Eval("x:"+stats.Hash([]any{text, m}), c07NonTrivial(c, m), nil)
		}
		if bad < 3 && !check(text, c, maps) {
			bad++
		}
	}
	// <= 2 leaves, 3 names x 3 values, all 64 maps
	names3, values3 := []string{"x", "", "a b"}, []string{"", "x", "xy", "y"}
	t3 := mkTerms(mkBasics(names3, values3))
	m3 := mkMaps(names3, values3)
	for _, a := range t3 {
		run(&filt.Cond{First: a}, m3)
	}
	for _, a := range t3 {
		for _, b := range t3 {
			for _, op := range []string{"AND", "OR"} {
				run(&filt.Cond{First: a, Op: op, Rest: []*filt.Term{b}}, m3)
			}
		}
	}
	// 3 leaves, 2 names x {x}, 16 maps; quick tier takes a 1/4 slice chosen by the seed
	names2 := []string{"x", "y"}
	t2 := mkTerms(mkBasics(names2, []string{"x"}))
	m2 := mkMaps(names2, []string{"", "x", "xy"})
	stride, off := 1, 0
	if !thorough() {
		stride, off = 4, int(seed()%4)
	}
	i := 0
	for _, a := range t2 {
		for _, b := range t2 {
			for _, c := range t2 {
				for _, op1 := range []string{"AND", "OR"} {
					i++
					if i%stride != off {
						continue
					}
					run(&filt.Cond{First: a, Op: op1, Rest: []*filt.Term{b, c}}, m2)
					for _, op2 := range []string{"AND", "OR"} {
						for _, neg := range []bool{false, true} {
							run(&filt.Cond{First: &filt.Term{Not: neg, Sub: &filt.Cond{First: a, Op: op1, Rest: []*filt.Term{b}}}, Op: op2, Rest: []*filt.Term{c}}, m2)
							run(&filt.Cond{First: a, Op: op2, Rest: []*filt.Term{{Not: neg, Sub: &filt.Cond{First: b, Op: op1, Rest: []*filt.Term{c}}}}}, m2)
						}
					}
				}
			}
		}
	}
	return
}

// TestC07EndToEnd: a filtered subscription created over gRPC receives a
// published message iff the reference evaluator says the filter is true.
func TestC07EndToEnd(t *testing.T) {
	defer reportFailure(t, "C07")
	s, err := sut.New()
	if err != nil {
		t.Fatal(err)
	}
	defer s.Close()
	ctx := context.Background()
	rapid.Check(t, func(rt *rapid.T) {
		if err := s.Reset(seed(), true); err != nil {
			rt.Fatalf("reset: %v", err)
		}
		const topic = "projects/p/topics/t"
		if _, err := s.Pub.CreateTopic(ctx, &pubsubpb.Topic{Name: topic}); err != nil {
			rt.Fatalf("create topic: %v", err)
		}
		nsub := rapid.IntRange(1, 3).Draw(rt, "nsub")
		conds := make([]*filt.Cond, nsub)
		texts := make([]string, nsub)
		for i := range conds {
			conds[i] = e2eCond(rt)
			toks := conds[i].Tokens(filt.GenSpelling(rt))
			texts[i] = filt.Join(toks, filt.GenSeps(rt, len(toks)))
			if _, err := s.Sub.CreateSubscription(ctx, &pubsubpb.Subscription{Name: fmt.Sprintf("projects/p/subscriptions/s%d", i), Topic: topic, Filter: texts[i]}); err != nil {
				failWith(rt, failure{Rule: "reject-valid", Detail: fmt.Sprintf("CreateSubscription rejected valid filter %q: %v", texts[i], err), Replay: filterCase{Kind: "filter", Text: texts[i], Verdict: "IN", Via: "grpc-create"}})
			}
		}
		// route: published straight to the topic, or arriving there as a
		// dead-letter forward from another topic's subscription (same filter
		// decision, different code path)
		viaDL := rapid.IntRange(0, 2).Draw(rt, "route") == 0
		pubTopic := topic
		const srcTopic, srcSub = "projects/p/topics/src", "projects/p/subscriptions/src0"
		if viaDL {
			pubTopic = srcTopic
			if _, err := s.Pub.CreateTopic(ctx, &pubsubpb.Topic{Name: srcTopic}); err != nil {
				rt.Fatalf("create topic: %v", err)
			}
			if _, err := s.Sub.CreateSubscription(ctx, &pubsubpb.Subscription{Name: srcSub, Topic: srcTopic,
				DeadLetterPolicy: &pubsubpb.DeadLetterPolicy{DeadLetterTopic: topic, MaxDeliveryAttempts: 1}}); err != nil {
				rt.Fatalf("create source subscription: %v", err)
			}
		}
		nmsg := rapid.IntRange(1, 5).Draw(rt, "nmsg")
		attrs := make([]map[string]string, nmsg)
		req := &pubsubpb.PublishRequest{Topic: pubTopic}
		for i := range attrs {
			attrs[i] = e2eAttrs(rt, conds)
			req.Messages = append(req.Messages, &pubsubpb.PubsubMessage{Data: []byte(fmt.Sprintf(`{"i":%d}`, i)), Attributes: attrs[i]})
		}
		pr, err := s.Pub.Publish(ctx, req)
		if err != nil {
			rt.Fatalf("publish: %v", err)
		}
		idx := map[string]int{}
		for i, id := range pr.MessageIds {
			idx[id] = i
		}
		via := "publish->filtered subscription"
		if viaDL {
			via = "dead-letter forward->filtered subscription"
			// use up the single permitted attempt, make the messages due again,
			// and let the next pull retire them into the dead-letter topic
			r, err := s.Sub.Pull(ctx, &pubsubpb.PullRequest{Subscription: srcSub, MaxMessages: 100, ReturnImmediately: true})
			if err != nil || len(r.ReceivedMessages) != nmsg {
				rt.Fatalf("source pull: %v (%d of %d messages)", err, len(r.GetReceivedMessages()), nmsg)
			}
			var ids []string
			for _, m := range r.ReceivedMessages {
				ids = append(ids, m.AckId)
			}
			if _, err := s.Sub.ModifyAckDeadline(ctx, &pubsubpb.ModifyAckDeadlineRequest{Subscription: srcSub, AckIds: ids, AckDeadlineSeconds: 0}); err != nil {
				rt.Fatalf("modack: %v", err)
			}
			sut.Advance(time.Second)
			if r, err = s.Sub.Pull(ctx, &pubsubpb.PullRequest{Subscription: srcSub, MaxMessages: 100, ReturnImmediately: true}); err != nil || len(r.ReceivedMessages) != 0 {
				rt.Fatalf("source pull after the last attempt: %v, %d messages (expected dead-lettering)", err, len(r.GetReceivedMessages()))
			}
			stats.C.Class("e2e/dead-letter-route", 1)
		}
		for si := range conds {
			r, err := s.Sub.Pull(ctx, &pubsubpb.PullRequest{Subscription: fmt.Sprintf("projects/p/subscriptions/s%d", si), MaxMessages: 100, ReturnImmediately: true})
			if err != nil {
				rt.Fatalf("pull: %v", err)
			}
			got := map[int]bool{}
			for _, m := range r.ReceivedMessages {
				got[idx[m.Message.MessageId]] = true
			}
			for mi := range attrs {
				want := conds[si].Eval(attrs[mi])
				stats.C.Eval("e2e:"+stats.Hash([]any{texts[si], attrs[mi]}), c07NonTrivial(conds[si], attrs[mi]), func() any {
					return map[string]any{"via": via, "filter": texts[si], "attributes": attrs[mi], "delivered": want}
				})
				if got[mi] != want {
					failWith(rt, failure{
						Rule:   "e2e-mismatch",
						Detail: fmt.Sprintf("subscription with filter %q (%s): message with attributes %v delivered=%v, reference says %v", texts[si], via, attrs[mi], got[mi], want),
						Sig:    map[string]any{"via_dead_letter": viaDL},
						Replay: filterCase{Kind: "filter", Text: filt.Join(conds[si].Tokens(nil), nil), Verdict: "IN", Maps: []map[string]string{attrs[mi]}},
					})
				}
			}
		}
	})
}

// e2e generators: attribute keys/values must be valid UTF-8 for protobuf.
func e2eCond(rt *rapid.T) *filt.Cond {
	for {
		c := filt.GenCond(rt, 3, 6)
		ok := true
		for _, l := range c.Leaves() {
			if !validUTF8(l.Name) || !validUTF8(l.Value) {
				ok = false
			}
		}
		if ok {
			return c
		}
	}
}

func validUTF8(s string) bool { return strings.ToValidUTF8(s, "�") == s }

func e2eAttrs(rt *rapid.T, conds []*filt.Cond) map[string]string {
	c := conds[rapid.IntRange(0, len(conds)-1).Draw(rt, "which")]
	m := filt.GenAttrs(rt, c)
	for k, v := range m {
		if !validUTF8(k) || !validUTF8(v) {
			delete(m, k)
		}
	}
	return m
}
