package props

import (
	"encoding/json"
	"os"
	"path/filepath"
	"testing"
	"time"

	"pgregory.net/rapid"

	"verif/hist"
	"verif/stats"
)

var (
	minute = time.Minute
	hour   = time.Hour
	day    = 24 * time.Hour
)

func preludeTopics(n int) func(t *rapid.T, g *hist.Gen) {
	return func(t *rapid.T, g *hist.Gen) {
		for i := 0; i < n; i++ {
			g.R.Step(hist.Op{K: hist.OpCreateTopic, T: []string{"t0", "t1", "t2", "t3"}[i]})
		}
	}
}

// ---------------------------------------------------------------- C01

var profC01 = &hist.Profile{
	Name: "C01", MinOps: 10, MaxOps: 40, Topics: 3, Subs: 4,
	W: map[string]int{
		hist.OpPublish: 18, hist.OpPull: 20, hist.OpAck: 9, hist.OpModAck: 5, hist.OpNack: 4, hist.OpStreamAck: 1, hist.OpAdvance: 16,
		hist.OpSeekTime: 3, hist.OpSnapshot: 4, hist.OpSeekSnap: 5, hist.MacroSnapRoundtrip: 3, hist.OpJob: 5, hist.OpSweep: 3, hist.OpExpireSubs: 1, hist.OpStream: 2,
		hist.OpCreateSub: 6, hist.OpDeleteSub: 2, hist.OpCreateTopic: 2, hist.OpDeleteTopic: 1, hist.OpUpdateSub: 2, hist.OpGetSub: 1,
	},
	Ordered: 30, Keys: []string{"", "", "K1", "K2"}, Filters: hist.DefaultFilters,
	DLPercent: 30, Attempts: []int{0, 1, 2, 3, 4}, Retry: 50,
	MinBs: []time.Duration{0, 100 * ms, sec, 10 * sec, 2 * hour}, MaxBs: []time.Duration{0, sec, 30 * sec, 600 * sec, 6 * hour},
	Rets: []time.Duration{0, 0, 10 * minute, hour, 7 * day}, TTLs: []time.Duration{0, 0, day, 60 * day},
	Foreign: true, NoSelfDL: true, AllowPruneCompleted: true, TargetExpiry: true,
	// two subscriptions on one topic from the start: "other subscriptions'
	// acks" and seeks need a sibling to act on
	Prelude: func(t *rapid.T, g *hist.Gen) {
		preludeTopics(2)(t, g)
		for _, s := range []string{"s0", "s1"} {
			cfg := g.GenCfg("t0")
			g.R.Step(hist.Op{K: hist.OpCreateSub, S: s, T: "t0", Cfg: &cfg})
		}
	},
}

func TestC01(t *testing.T) {
	defer reportFailure(t, "C01")
	if thorough() {
		profC01.MaxOps = 80
	}
	s := getSUT(t)
	defer closeSUT()
	sp := e1Spec{prop: "C01", profile: profC01, armed: []string{"C01"}, drain: true,
		nontrivial: func(r *hist.Runner) bool {
			return r.M.C["redeliveries"] > 0 && opCount(r, hist.OpSeekTime, hist.OpSeekSnap, hist.OpSweep, hist.OpJob, hist.OpDeleteSub, hist.OpDeleteTopic) > 0
		}}
	rapid.Check(t, func(rt *rapid.T) { runE1(rt, s, sp) })
}

// ---------------------------------------------------------------- C02 (a-c)

var profC02 = &hist.Profile{
	Name: "C02", MinOps: 10, MaxOps: 40, Topics: 3, Subs: 5,
	W: map[string]int{
		hist.OpPublish: 22, hist.OpPull: 24, hist.OpAck: 9, hist.OpModAck: 4, hist.OpNack: 3, hist.OpAdvance: 12,
		hist.OpSeekTime: 3, hist.OpSweep: 2, hist.OpJob: 2, hist.OpSnapshot: 5, hist.OpSeekSnap: 6, hist.MacroSnapRoundtrip: 3, hist.OpStream: 2,
		hist.OpCreateSub: 9, hist.OpDeleteSub: 2, hist.OpCreateTopic: 2, hist.OpDeleteTopic: 1, hist.OpUpdateSub: 3,
	},
	Ordered: 20, Keys: []string{"", "", "K1", "ключ", "k 2"}, Filters: hist.DefaultFilters,
	DLPercent: 25, Attempts: []int{1, 2}, Retry: 40,
	MinBs: []time.Duration{100 * ms, sec, 10 * sec}, MaxBs: []time.Duration{0, sec, 600 * sec},
	Rets: []time.Duration{0, hour}, RichData: true, Foreign: true, NoSelfDL: true, AllowPruneCompleted: true,
	Prelude: func(t *rapid.T, g *hist.Gen) {
		preludeTopics(2)(t, g)
		for i, s := range []string{"s0", "s1"} {
			cfg := g.GenCfg("t0")
			cfg.DLTopic, cfg.MaxAttempts = "", 0
			cfg.Filter = []string{"", `attributes:x`}[i]
			g.R.Step(hist.Op{K: hist.OpCreateSub, S: s, T: "t0", Cfg: &cfg})
		}
	},
}

func TestC02(t *testing.T) {
	defer reportFailure(t, "C02")
	if thorough() {
		profC02.MaxOps = 70
	}
	s := getSUT(t)
	defer closeSUT()
	sp := e1Spec{prop: "C02", profile: profC02, armed: []string{"C02"}, drain: true,
		nontrivial: func(r *hist.Runner) bool { return r.M.C["nt/multi-message-response-on-shared-topic"] > 0 }}
	runKnownCanaries(t, "C02") // regression of a corrected false alarm (known/C02-FA-*.json): must stay silent
	rapid.Check(t, func(rt *rapid.T) { runE1(rt, s, sp) })
}

// ---------------------------------------------------------------- C03

var profC03 = &hist.Profile{
	Name: "C03", MinOps: 10, MaxOps: 40, Topics: 2, Subs: 3,
	W: map[string]int{
		hist.OpPublish: 14, hist.OpPull: 22, hist.OpAck: 18, hist.OpStreamAck: 4, hist.OpModAck: 10, hist.OpNack: 8, hist.OpAdvance: 16,
		hist.OpSweep: 3, hist.OpCreateSub: 4, hist.OpDeleteSub: 1, hist.OpJob: 1, hist.OpStream: 6,
		// "unless a later Seek explicitly rewinds it": seeks of this and of sibling
		// subscriptions, which must not bring back anything they do not cover
		hist.OpSeekTime: 3, hist.OpSnapshot: 2, hist.OpSeekSnap: 3,
	},
	Ordered: 30, Keys: []string{"", "K1", "K2"}, Filters: hist.DefaultFilters,
	DLPercent: 30, Attempts: []int{1, 2, 3}, Retry: 60,
	MinBs: []time.Duration{100 * ms, sec, 10 * sec}, MaxBs: []time.Duration{0, sec, 600 * sec},
	Rets: []time.Duration{0, 10 * minute}, Foreign: true, NoSelfDL: true,
	Prelude: func(t *rapid.T, g *hist.Gen) {
		preludeTopics(2)(t, g)
		cfg := g.GenCfg("t0")
		g.R.Step(hist.Op{K: hist.OpCreateSub, S: "s0", T: "t0", Cfg: &cfg})
	},
}

func TestC03(t *testing.T) {
	defer reportFailure(t, "C03")
	if thorough() {
		profC03.MaxOps = 60
	}
	s := getSUT(t)
	defer closeSUT()
	// a side effect on a delivery that was not named shows up as that delivery
	// going missing (C01 rule) or being delivered inside its lease (C04 rule)
	sp := e1Spec{prop: "C03", profile: profC03, armed: []string{"C03", "C01", "C04", "C06", "C02"}, drain: true,
		nontrivial: func(r *hist.Runner) bool {
			return r.M.C["nack-after-ack"]+r.M.C["modack-after-ack"] > 0 && r.M.C["nt/acked-at-pull"] >= 2
		}}
	rapid.Check(t, func(rt *rapid.T) { runE1(rt, s, sp) })
}

// ---------------------------------------------------------------- C04 (sequential part)

var profC04 = &hist.Profile{
	Name: "C04", MinOps: 12, MaxOps: 50, Topics: 1, Subs: 2,
	W: map[string]int{
		hist.OpPublish: 5, hist.OpPull: 30, hist.OpModAck: 10, hist.OpNack: 8, hist.OpAdvance: 34, hist.OpAck: 2, hist.OpUpdateSub: 1,
	},
	Retry: 75,
	MinBs: []time.Duration{0, 100 * ms, 400 * ms, sec, 10 * sec, 7 * minute, 2 * hour}, MaxBs: []time.Duration{0, sec, 5 * sec, 30 * sec, 600 * sec, 6 * hour},
	Rets:      []time.Duration{30 * day},
	AdvScales: []time.Duration{ms, 100 * ms, sec, 5 * sec, 11500 * ms, minute, 11 * minute},
	Prelude: func(t *rapid.T, g *hist.Gen) {
		preludeTopics(1)(t, g)
		cfg := g.GenCfg("t0")
		g.R.Step(hist.Op{K: hist.OpCreateSub, S: "s0", T: "t0", Cfg: &cfg})
		g.R.Step(hist.Op{K: hist.OpPublish, T: "t0", Msgs: []hist.MsgSpec{{Data: `{"i":0}`}}})
	},
}

func TestC04(t *testing.T) {
	defer reportFailure(t, "C04")
	if thorough() {
		profC04.MaxOps = 140
	}
	s := getSUT(t)
	defer closeSUT()
	sp := e1Spec{prop: "C04", profile: profC04, armed: []string{"C04", "C01"}, drain: false,
		nontrivial: func(r *hist.Runner) bool { return r.M.C["max-attempt"] >= 3 && opCount(r, hist.OpModAck) > 0 }}
	rapid.Check(t, func(rt *rapid.T) { runE1(rt, s, sp) })
}

// ---------------------------------------------------------------- C06

var profC06 = &hist.Profile{
	Name: "C06", MinOps: 12, MaxOps: 45, Topics: 4, Subs: 5,
	W: map[string]int{
		hist.OpPublish: 12, hist.OpPull: 26, hist.OpNack: 12, hist.OpModAck: 8, hist.OpAck: 5, hist.OpAdvance: 20, hist.OpSweep: 10, hist.MacroExhaustedExpires: 3,
		hist.OpCreateSub: 6, hist.OpDeleteSub: 1, hist.OpDeleteTopic: 2, hist.OpCreateTopic: 1, hist.OpUpdateSub: 1, hist.OpJob: 3,
	},
	Ordered: 20, Keys: []string{"", "K1"}, Filters: hist.DefaultFilters,
	DLPercent: 75, Attempts: []int{0, 1, 1, 2, 2, 3, 4}, Retry: 80,
	MinBs: []time.Duration{100 * ms, 400 * ms, sec}, MaxBs: []time.Duration{0, sec, 10 * sec},
	Rets: []time.Duration{0, hour}, NoSelfDL: true,
	AdvScales: []time.Duration{ms, 100 * ms, 100 * ms, sec, sec, 5 * sec, 11500 * ms, minute, 11 * minute, 25 * hour},
	JobKinds:  []string{"deleted-topics", "deleted-topics", "deleted-subscriptions", "expired-deliveries", "completed-messages"}, JobAges: []time.Duration{0, 0, sec},
	Prelude: func(t *rapid.T, g *hist.Gen) {
		preludeTopics(3)(t, g)
		cfg := g.GenCfg("t0")
		cfg.DLTopic = "t1"
		cfg.MaxAttempts = rapid.SampledFrom([]int{1, 2, 3}).Draw(t, "n0")
		g.R.Step(hist.Op{K: hist.OpCreateSub, S: "s0", T: "t0", Cfg: &cfg})
		// someone to forward to (often filtered; it may forward on to t2)
		cfg1 := g.GenCfg("t1")
		g.R.Step(hist.Op{K: hist.OpCreateSub, S: "s1", T: "t1", Cfg: &cfg1})
	},
}

func TestC06(t *testing.T) {
	defer reportFailure(t, "C06")
	if thorough() {
		profC06.MaxOps = 70
	}
	s := getSUT(t)
	defer closeSUT()
	// a forward that is lost, duplicated, premature or lands on a wrong
	// subscription shows up through the C01 / C02 rules on the target
	sp := e1Spec{prop: "C06", profile: profC06, armed: []string{"C06", "C01", "C02"}, drain: true,
		nontrivial: func(r *hist.Runner) bool { return r.M.C["forwards"] > 0 }}
	runKnownCanaries(t, "C06")
	rapid.Check(t, func(rt *rapid.T) { runE1(rt, s, sp) })
}

// ---------------------------------------------------------------- C13

var profC13 = &hist.Profile{
	Name: "C13", MinOps: 10, MaxOps: 40, Topics: 2, Subs: 3,
	W: map[string]int{
		hist.OpPublish: 18, hist.OpPull: 20, hist.OpAck: 14, hist.OpAdvance: 8, hist.OpSeekTime: 12, hist.OpSnapshot: 7, hist.OpSeekSnap: 9, hist.MacroSnapRoundtrip: 2, hist.MacroDoubleSeek: 2,
		hist.OpDelSnapshot: 1, hist.OpCreateSub: 4, hist.OpModAck: 2, hist.OpNack: 2,
	},
	Ordered: 20, Keys: []string{"", "K1"}, Filters: []string{"", "", `attributes:x`},
	Retry: 60, MinBs: []time.Duration{100 * ms, sec, 10 * sec}, MaxBs: []time.Duration{0, 5 * sec},
	// "with fresh retention": short retentions and subscription TTLs that differ
	// from them, looked at around the old and the new retention end
	Rets: []time.Duration{30 * day, 30 * day, 10 * minute}, TTLs: []time.Duration{0, 0, day}, TargetExpiry: true,
	AdvScales: []time.Duration{ms, 100 * ms, sec, 5 * sec, 11500 * ms, minute, 11 * minute, hour},
	Prelude: func(t *rapid.T, g *hist.Gen) {
		preludeTopics(1)(t, g)
		cfg := g.GenCfg("t0")
		g.R.Step(hist.Op{K: hist.OpCreateSub, S: "s0", T: "t0", Cfg: &cfg})
		cfg2 := cfg
		g.R.Step(hist.Op{K: hist.OpCreateSub, S: "s1", T: "t0", Cfg: &cfg2})
	},
}

func TestC13(t *testing.T) {
	defer reportFailure(t, "C13")
	if thorough() {
		profC13.MaxOps = 60
	}
	s := getSUT(t)
	defer closeSUT()
	// within this profile (publish / pull / ack / snapshot / seek only) the
	// drain comparison with the model's expected backlog is the C13 oracle
	sp := e1Spec{prop: "C13", profile: profC13, armed: []string{"C13", "C01", "C03"}, drain: true,
		nontrivial: func(r *hist.Runner) bool { return r.M.C["revived"] > 0 && r.M.C["seek-acked"] > 0 }}
	rapid.Check(t, func(rt *rapid.T) { runE1(rt, s, sp) })
}

// ---------------------------------------------------------------- C14

var profC14 = &hist.Profile{
	Name: "C14", MinOps: 10, MaxOps: 35, Topics: 2, Subs: 4,
	W: map[string]int{
		hist.OpPublish: 16, hist.OpPull: 24, hist.OpAck: 8, hist.OpAdvance: 28, hist.OpExpireSubs: 8, hist.OpSeekTime: 4, hist.OpSetDelay: 5,
		hist.OpSnapshot: 3, hist.OpSeekSnap: 4, hist.MacroSnapRoundtrip: 3,
		hist.OpCreateSub: 6, hist.OpUpdateSub: 3, hist.OpGetSub: 2, hist.OpJob: 2,
	},
	Filters: []string{"", "", `attributes:x`}, Retry: 50,
	MinBs: []time.Duration{100 * ms, sec, 10 * sec}, MaxBs: []time.Duration{0, 5 * sec, 600 * sec},
	Rets:   []time.Duration{0, 10 * minute, 10 * minute, hour, 30 * day},
	TTLs:   []time.Duration{0, day, day, 2 * day, 60 * day},
	Delays: []time.Duration{0, 100 * ms, 5 * sec, minute, hour}, TargetExpiry: true,
	Prelude: func(t *rapid.T, g *hist.Gen) {
		preludeTopics(1)(t, g)
		cfg := g.GenCfg("t0")
		g.R.Step(hist.Op{K: hist.OpCreateSub, S: "s0", T: "t0", Cfg: &cfg})
	},
}

func TestC14(t *testing.T) {
	defer reportFailure(t, "C14")
	if thorough() {
		profC14.MaxOps = 60
	}
	s := getSUT(t)
	defer closeSUT()
	sp := e1Spec{prop: "C14", profile: profC14, armed: []string{"C14", "STATUS"}, drain: true,
		nontrivial: func(r *hist.Runner) bool {
			return r.M.C["nt/expired-at-pull"]+r.M.C["nt/delayed-at-pull"]+r.M.C["subs-expired"] > 0 && len(r.M.Rcv) > 0
		}}
	rapid.Check(t, func(rt *rapid.T) { runE1(rt, s, sp) })
}

// TestC13TZ replays the F9 canary in a process whose time zone is not UTC (the
// driver starts it with TZ set; Go reads TZ once at start-up). On SQLite
// timestamps are stored and compared as text including the zone offset, so a
// client-supplied (UTC) seek time is compared textually with locally-zoned
// publish times.
func TestC13TZ(t *testing.T) {
	if os.Getenv("VERIF_TZ_SLICE") == "" {
		t.Skip("only run by the driver in a process with a non-UTC TZ")
	}
	defer reportFailure(t, "C13")
	b, err := os.ReadFile(filepath.Join(os.Getenv("VERIF_KNOWN_TZ_DIR"), "C13-F9.json"))
	if err != nil {
		t.Skip("no canary file")
	}
	var d replayDoc
	var hc histCase
	if json.Unmarshal(b, &d) != nil || json.Unmarshal(d.Case, &hc) != nil {
		t.Fatal("bad canary file")
	}
	s := getSUT(t)
	defer closeSUT()
	r := hist.Replay(s, hc.Ops, hc.Seed, hc.Armed...)
	stats.C.EvalN(1)
	stats.C.Class("canary/C13-F9 under TZ="+time.Local.String(), 1)
	if r.Viol != nil {
		sig := violSig(r.Viol)
		sig["tz"] = time.Local.String()
		stats.C.Violate(stats.Violation{Property: "C13", Rule: r.Viol.Rule, Detail: "under TZ=" + time.Local.String() + ": " + r.Viol.Detail, Signature: sig, Replay: filepath.Join(os.Getenv("VERIF_KNOWN_TZ_DIR"), "C13-F9.json")})
	}
}
