package props

import (
	"context"
	"encoding/json"
	"fmt"
	"io"
	"net/http"
	"strings"
	"sync"
	"testing"
	"time"

	"cloud.google.com/go/pubsub/apiv1/pubsubpb"
	"google.golang.org/grpc/codes"
	"google.golang.org/grpc/status"
	"google.golang.org/protobuf/types/known/durationpb"
	"google.golang.org/protobuf/types/known/fieldmaskpb"
	"pgregory.net/rapid"

	"go.6river.tech/mmmbbb/services"

	"verif/stats"
	"verif/sut"
)

// C19, "every deliverable message of a push subscription is POSTed to the
// endpoint" over the life of subscriptions: the push manager service runs the
// whole time while subscriptions are created in push or pull mode, switched
// between endpoints and modes (ModifyPushConfig, UpdateSubscription with the
// push_config path), deleted and re-created. After every publish each live push
// subscription must see the message at the endpoint it is configured with NOW.

type c19LifeOp struct {
	K string `json:"k"` // create | modify | update | delete | publish
	S int    `json:"s"`
	E int    `json:"e"` // 0 = pull mode, 1.. = endpoint index
}

type c19LifeCase struct {
	Kind string      `json:"kind"` // "pushlife"
	Ops  []c19LifeOp `json:"ops"`
}

func lifeURL(e int) string { return fmt.Sprintf("http://endpoint-%d.verif.invalid/push", e) }
func lifeSub(i int) string { return fmt.Sprintf("projects/p/subscriptions/life%d", i) }

type lifePost struct {
	URL, Sub, Msg string
	Status        int
	At            time.Time
}

// lifeEndpoints answers 204 when a POST arrives at the URL the subscription is
// configured with at that moment and 503 anywhere else, so a push that raced a
// reconfiguration is simply retried.
type lifeEndpoints struct {
	mu      sync.Mutex
	current map[string]string // subscription name -> URL ("" = pull)
	posts   []lifePost
}

func (e *lifeEndpoints) RoundTrip(req *http.Request) (*http.Response, error) {
	body, _ := io.ReadAll(req.Body)
	req.Body.Close()
	var env struct {
		Message struct {
			MessageId string `json:"messageId"`
		} `json:"message"`
		Subscription string `json:"subscription"`
	}
	_ = json.Unmarshal(body, &env)
	url := req.URL.String()
	e.mu.Lock()
	st := 503
	if cur, ok := e.current[env.Subscription]; ok && cur == url {
		st = 204
	}
	e.posts = append(e.posts, lifePost{URL: url, Sub: env.Subscription, Msg: env.Message.MessageId, Status: st, At: time.Now()})
	e.mu.Unlock()
	return &http.Response{StatusCode: st, Status: fmt.Sprintf("%d", st), Proto: "HTTP/1.1", ProtoMajor: 1, ProtoMinor: 1, Header: http.Header{}, Body: errBody{}, Request: req}, nil
}

func (e *lifeEndpoints) set(sub, url string) {
	e.mu.Lock()
	if url == "" {
		delete(e.current, sub)
	} else {
		e.current[sub] = url
	}
	e.mu.Unlock()
}

func (e *lifeEndpoints) arrived(sub, msg, url string) bool {
	e.mu.Lock()
	defer e.mu.Unlock()
	for _, p := range e.posts {
		if p.Sub == sub && p.Msg == msg && p.URL == url {
			return true
		}
	}
	return false
}

func (e *lifeEndpoints) where(sub, msg string) string {
	e.mu.Lock()
	defer e.mu.Unlock()
	var out []string
	for _, p := range e.posts {
		if p.Sub == sub && p.Msg == msg {
			out = append(out, fmt.Sprintf("%s -> %d", p.URL, p.Status))
		}
	}
	if len(out) == 0 {
		return "nowhere"
	}
	if len(out) > 6 {
		out = append(out[:5], fmt.Sprintf("... %d POSTs in total", len(out)))
	}
	return strings.Join(out, ", ")
}

const (
	lifeT      = "projects/p/topics/life"
	lifeBound  = 4 * time.Second
	lifeSettle = 300 * time.Millisecond
)

func runC19Life(s *sut.SUT, cs c19LifeCase) (rule, detail string, nontrivial bool, sig map[string]any) {
	ctx := context.Background()
	if err := s.Reset(seed(), false); err != nil {
		return "harness", err.Error(), false, nil
	}
	ep := &lifeEndpoints{current: map[string]string{}}
	c19TransportMu.Lock()
	old := http.DefaultTransport
	http.DefaultTransport = ep
	defer func() { http.DefaultTransport = old; c19TransportMu.Unlock() }()
	if _, err := s.Pub.CreateTopic(ctx, &pubsubpb.Topic{Name: lifeT}); err != nil {
		return "harness", err.Error(), false, nil
	}
	svc := services.VerifHttpPusher()
	if err := svc.Initialize(ctx, s.Client); err != nil {
		return "harness", err.Error(), false, nil
	}
	pctx, cancel := context.WithCancel(ctx)
	done := make(chan error, 1)
	ready := make(chan struct{})
	go func() { done <- svc.Start(pctx, ready) }()
	defer func() {
		cancel()
		select {
		case <-done:
		case <-time.After(10 * time.Second):
		}
		_ = svc.Cleanup(ctx)
	}()
	select {
	case <-ready:
	case <-time.After(5 * time.Second):
		return "harness", "push manager did not become ready", false, nil
	}

	live := map[int]int{} // sub index -> endpoint index (0 = pull); absent = not live
	// how the current endpoint of a subscription came about, for the report
	how := map[int]string{}
	changed := false
	npub := 0
	for i, op := range cs.Ops {
		name := lifeSub(op.S)
		pc := &pubsubpb.PushConfig{}
		if op.E > 0 {
			pc.PushEndpoint = lifeURL(op.E)
		}
		_, isLive := live[op.S]
		var err error
		switch op.K {
		case "create":
			sub := &pubsubpb.Subscription{Name: name, Topic: lifeT, PushConfig: pc,
				RetryPolicy: &pubsubpb.RetryPolicy{MinimumBackoff: durationpb.New(400 * time.Millisecond), MaximumBackoff: durationpb.New(500 * time.Millisecond)}}
			// the endpoint map is switched first: a push that happens between the
			// commit and the return of the call already goes to the new endpoint
			if !isLive {
				ep.set(name, pc.PushEndpoint)
			}
			_, err = s.Sub.CreateSubscription(ctx, sub)
			if isLive {
				if status.Code(err) != codes.AlreadyExists {
					return "harness", fmt.Sprintf("op %d create of a live subscription: %v", i, err), false, nil
				}
				continue
			}
			if err != nil {
				return "harness", fmt.Sprintf("op %d: %v", i, err), false, nil
			}
			live[op.S], how[op.S] = op.E, "created with it"
			changed = true
		case "modify", "update":
			if isLive {
				ep.set(name, pc.PushEndpoint)
			}
			if op.K == "modify" {
				_, err = s.Sub.ModifyPushConfig(ctx, &pubsubpb.ModifyPushConfigRequest{Subscription: name, PushConfig: pc})
			} else {
				_, err = s.Sub.UpdateSubscription(ctx, &pubsubpb.UpdateSubscriptionRequest{
					Subscription: &pubsubpb.Subscription{Name: name, Topic: lifeT, PushConfig: pc},
					UpdateMask:   &fieldmaskpb.FieldMask{Paths: []string{"push_config"}}})
			}
			if !isLive {
				if status.Code(err) != codes.NotFound {
					return "harness", fmt.Sprintf("op %d %s of a missing subscription: %v", i, op.K, err), false, nil
				}
				continue
			}
			if err != nil {
				return "harness", fmt.Sprintf("op %d: %v", i, err), false, nil
			}
			if live[op.S] != op.E {
				switch {
				case live[op.S] == 0:
					how[op.S] = "switched from pull to push by " + op.K
				case op.E == 0:
					how[op.S] = "switched to pull by " + op.K
				default:
					how[op.S] = fmt.Sprintf("switched from %s by %s", lifeURL(live[op.S]), op.K)
				}
				changed = true
			}
			live[op.S] = op.E
		case "delete":
			_, err = s.Sub.DeleteSubscription(ctx, &pubsubpb.DeleteSubscriptionRequest{Subscription: name})
			if !isLive {
				continue
			}
			if err != nil {
				return "harness", fmt.Sprintf("op %d: %v", i, err), false, nil
			}
			ep.set(name, "")
			delete(live, op.S)
			delete(how, op.S)
			changed = true
		case "publish":
			if changed {
				// the manager learns of configuration changes by notification
				time.Sleep(lifeSettle)
				changed = false
			}
			pr, err := s.Pub.Publish(ctx, &pubsubpb.PublishRequest{Topic: lifeT, Messages: []*pubsubpb.PubsubMessage{{Data: []byte(fmt.Sprintf(`{"n":%d}`, npub))}}})
			if err != nil {
				return "harness", fmt.Sprintf("op %d: %v", i, err), false, nil
			}
			npub++
			id := pr.MessageIds[0]
			deadline := time.Now().Add(lifeBound)
			for si := 0; si < 4; si++ {
				e, ok := live[si]
				if !ok || e == 0 {
					continue
				}
				if strings.HasPrefix(how[si], "switched from http") {
					nontrivial = true
				}
				for !ep.arrived(lifeSub(si), id, lifeURL(e)) {
					if time.Now().After(deadline) {
						kind := "created"
						switch {
						case strings.HasPrefix(how[si], "switched from http"):
							kind = "endpoint-changed"
						case strings.HasPrefix(how[si], "switched from pull"):
							kind = "push-enabled"
						}
						return "not-pushed-to-endpoint", fmt.Sprintf("op %d: message %s published on a topic with push subscription %s, whose endpoint is %s (%s), was not POSTed there within %v; it was POSTed: %s",
							i, id, lifeSub(si), lifeURL(e), how[si], lifeBound, ep.where(lifeSub(si), id)), nontrivial, map[string]any{"rule": "not-pushed-to-endpoint", "endpoint": kind}
					}
					time.Sleep(2 * time.Millisecond)
				}
			}
		}
	}
	return "", "", nontrivial, nil
}

func genC19Life(rt *rapid.T) c19LifeCase {
	cs := c19LifeCase{Kind: "pushlife"}
	n := rapid.IntRange(3, 12).Draw(rt, "nops")
	pubs := 0
	for i := 0; i < n; i++ {
		k := rapid.SampledFrom([]string{"create", "create", "modify", "modify", "update", "delete", "publish", "publish", "publish"}).Draw(rt, "k")
		if k == "publish" {
			if pubs >= 5 {
				k = "modify"
			} else {
				pubs++
			}
		}
		op := c19LifeOp{K: k}
		if k != "publish" {
			op.S = rapid.IntRange(0, 1).Draw(rt, "s")
		}
		if k == "create" || k == "modify" || k == "update" {
			op.E = rapid.SampledFrom([]int{0, 1, 1, 2, 2, 3}).Draw(rt, "e")
		}
		cs.Ops = append(cs.Ops, op)
	}
	cs.Ops = append(cs.Ops, c19LifeOp{K: "publish"})
	return cs
}

func TestC19Lifecycle(t *testing.T) {
	defer reportFailure(t, "C19")
	s := getSUT(t)
	defer closeSUT()
	rapid.Check(t, func(rt *rapid.T) {
		cs := genC19Life(rt)
		rule, detail, nt, sig := runC19Life(s, cs)
		stats.C.Eval(stats.Hash(cs), nt, func() any { return cs })
		stats.C.Class("lifecycle-scripts", 1)
		if nt {
			stats.C.Class("lifecycle-scripts-publishing-after-an-endpoint-switch", 1)
		}
		if rule == "harness" {
			stats.C.Class("harness-skip", 1)
			stats.C.Note("lifecycle script skipped: %s", detail)
			return
		}
		if rule != "" {
			misses := 1
			for k := 0; k < 2; k++ {
				if r2, _, _, _ := runC19Life(s, cs); r2 == rule {
					misses++
				}
			}
			if misses < 3 {
				stats.C.Class("inconclusive", 1)
				stats.C.Note("inconclusive: %s reproduced %d of 3 times: %s", rule, misses, detail)
				return
			}
			failWith(rt, failure{Rule: rule, Detail: detail, Sig: sig, Replay: cs})
		}
	})
}

func init() {
	replayers["pushlife"] = func(t *testing.T, prop string, raw json.RawMessage) {
		var cs c19LifeCase
		_ = json.Unmarshal(raw, &cs)
		s := getSUT(t)
		defer closeSUT()
		n := 0
		var lr, ld string
		var ls map[string]any
		for k := 0; k < 3; k++ {
			if rule, detail, _, sig := runC19Life(s, cs); rule != "" && rule != "harness" {
				n++
				lr, ld, ls = rule, detail, sig
			}
		}
		if n == 3 {
			violate(t, prop, failure{Rule: lr, Detail: ld, Sig: ls, Replay: cs})
		}
	}
}
