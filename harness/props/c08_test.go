package props

import (
	"context"
	"encoding/json"
	"fmt"
	"os"
	"os/exec"
	"strings"
	"testing"
	"time"

	"cloud.google.com/go/pubsub/apiv1/pubsubpb"
	"google.golang.org/grpc/codes"
	"google.golang.org/grpc/status"
	"google.golang.org/protobuf/types/known/fieldmaskpb"
	"pgregory.net/rapid"

	"verif/filt"
	"verif/stats"
	"verif/sut"
)

const maxFilterBytes = 4096
const maxFilterDepth = 200

type filterCase struct {
	Kind    string              `json:"kind"` // "filter"
	Text    string              `json:"text"`
	Verdict string              `json:"verdict"` // IN, OUT, UNSPECIFIED, "" (derive by lexing)
	Maps    []map[string]string `json:"maps,omitempty"`
	Via     string              `json:"via,omitempty"` // "", "grpc-create", "grpc-update"
}

// checkFilterText is the C08 oracle for one filter text with a verdict from
// the reference recogniser (want may be nil when the verdict is not IN).
func checkFilterText(text string, v filt.Verdict, want *filt.Cond, maps []map[string]string) (rule, detail string) {
	o := parseSafe(text)
	if o.Panic != nil {
		return "parse-panic", fmt.Sprintf("parsing %q panicked: %v", text, o.Panic)
	}
	if o.Elapsed > 10*time.Second {
		return "parse-slow", fmt.Sprintf("parsing %d bytes took %v", len(text), o.Elapsed)
	}
	switch v {
	case filt.IN:
		if o.Err != nil {
			return "reject-valid", fmt.Sprintf("filter %q is a sentence of the grammar (%s) but was rejected: %v", text, want.Canon(), o.Err)
		}
	case filt.OUT:
		if o.Err == nil {
			c, _ := conv(o.F)
			cs := "?"
			if c != nil {
				cs = c.Canon()
			}
			return "accept-invalid", fmt.Sprintf("filter %q is not a sentence of the grammar but was accepted as %s", text, cs)
		}
	}
	if o.Err == nil {
		if v != filt.IN {
			want = nil
		}
		return checkAccepted(text, o.F, want, maps)
	}
	return "", ""
}

func drawMaps(t *rapid.T, c *filt.Cond, n int) []map[string]string {
	maps := make([]map[string]string, n)
	for i := range maps {
		maps[i] = filt.GenAttrs(t, c)
	}
	return maps
}

func TestC08(t *testing.T) {
	defer reportFailure(t, "C08")
	t.Run("sentences", func(t *testing.T) {
		rapid.Check(t, func(rt *rapid.T) {
			c := filt.GenCond(rt, 4, 12)
			toks := c.Tokens(filt.GenSpelling(rt))
			text := filt.Join(toks, filt.GenSeps(rt, len(toks)))
			if len(text) > maxFilterBytes || nestDepth(text) > maxFilterDepth {
				stats.C.Exclude("oversize", 1)
				return
			}
			// self-check of the reference: the recogniser must agree with the generator
			v, rc := filt.Recognise(toks)
			if v == filt.OUT {
				rt.Fatalf("harness bug: reference recogniser rejects generated sentence %q", text)
			}
			maps := drawMaps(rt, c, 3)
			fc := filterCase{Kind: "filter", Text: text, Verdict: v.String(), Maps: maps}
			nt := filt.TokClasses(toks) >= 3
			stats.C.Eval(stats.Hash(text), nt, func() any { return fc })
			stats.C.Class("sentence/"+v.String(), 1)
			want := c
			if v != filt.IN {
				want = rc
			}
			if rule, detail := checkFilterText(text, v, want, maps); rule != "" {
				failWith(rt, failure{Rule: rule, Detail: detail, Sig: sigForFilter(rule, text), Replay: fc})
			}
		})
	})
	t.Run("mutations", func(t *testing.T) {
		rapid.Check(t, func(rt *rapid.T) {
			c := filt.GenCond(rt, 3, 6)
			toks := c.Tokens(filt.GenSpelling(rt))
			pv, _ := filt.Recognise(toks)
			n := rapid.IntRange(1, 2).Draw(rt, "nmut")
			var desc []string
			for i := 0; i < n; i++ {
				var d string
				toks, d = filt.Mutate(rt, toks)
				desc = append(desc, d)
			}
			text := filt.Join(toks, filt.GenSeps(rt, len(toks)))
			if len(text) > maxFilterBytes || nestDepth(text) > maxFilterDepth {
				stats.C.Exclude("oversize", 1)
				return
			}
			v, rc := filt.Recognise(toks)
			var maps []map[string]string
			if rc != nil {
				maps = drawMaps(rt, rc, 2)
			}
			fc := filterCase{Kind: "filter", Text: text, Verdict: v.String(), Maps: maps}
			stats.C.Eval(stats.Hash(text), v != pv, func() any { return map[string]any{"case": fc, "mutation": strings.Join(desc, "+")} })
			stats.C.Class("mutation/"+v.String(), 1)
			if rule, detail := checkFilterText(text, v, rc, maps); rule != "" {
				failWith(rt, failure{Rule: rule, Detail: detail, Sig: sigForFilter(rule, text), Replay: fc})
			}
		})
	})
}

func sigForFilter(rule, text string) map[string]any {
	sig := map[string]any{}
	if rule == "roundtrip-reject" || rule == "roundtrip-changed" {
		// salient feature for the empty-name finding
		if strings.Contains(text, `:""`) || strings.Contains(text, `.""`) || strings.Contains(strings.ReplaceAll(text, " ", ""), `:""`) {
			sig["empty_name"] = true
		}
	}
	return sig
}

// TestC08Grpc: through the API, an OUT filter is rejected and never stored, an
// IN filter is stored verbatim - on CreateSubscription and UpdateSubscription.
func TestC08Grpc(t *testing.T) {
	defer reportFailure(t, "C08")
	s, err := sut.New()
	if err != nil {
		t.Fatal(err)
	}
	defer s.Close()
	ctx := context.Background()
	const topic = "projects/p/topics/t"
	const sub = "projects/p/subscriptions/s"
	const oldFilter = `attributes:keep`
	rapid.Check(t, func(rt *rapid.T) {
		if err := s.Reset(seed(), true); err != nil {
			rt.Fatalf("reset: %v", err)
		}
		c := filt.GenCond(rt, 3, 6)
		toks := c.Tokens(filt.GenSpelling(rt))
		if rapid.Bool().Draw(rt, "mutate") {
			toks, _ = filt.Mutate(rt, toks)
		}
		text := filt.Join(toks, filt.GenSeps(rt, len(toks)))
		if text == "" || len(text) > maxFilterBytes || nestDepth(text) > maxFilterDepth {
			stats.C.Exclude("empty-or-oversize", 1)
			return
		}
		v, _ := filt.Recognise(toks)
		via := rapid.SampledFrom([]string{"grpc-create", "grpc-update"}).Draw(rt, "via")
		fc := filterCase{Kind: "filter", Text: text, Verdict: v.String(), Via: via}
		stats.C.Eval(stats.Hash(fc), true, func() any { return fc })
		stats.C.Class(via+"/"+v.String(), 1)
		if rule, detail := checkFilterGrpc(ctx, s, fc, v); rule != "" {
			failWith(rt, failure{Rule: rule, Detail: detail, Sig: map[string]any{"via": via}, Replay: fc})
		}
	})
	_ = topic
	_ = sub
	_ = oldFilter
}

func checkFilterGrpc(ctx context.Context, s *sut.SUT, fc filterCase, v filt.Verdict) (string, string) {
	const topic = "projects/p/topics/t"
	const sub = "projects/p/subscriptions/s"
	const oldFilter = `attributes:keep`
	if _, err := s.Pub.CreateTopic(ctx, &pubsubpb.Topic{Name: topic}); err != nil {
		return "harness", "create topic: " + err.Error()
	}
	text := fc.Text
	switch fc.Via {
	case "grpc-create":
		_, err := s.Sub.CreateSubscription(ctx, &pubsubpb.Subscription{Name: sub, Topic: topic, Filter: text})
		if p := s.TakePanics(); len(p) > 0 {
			return "grpc-panic", fmt.Sprintf("CreateSubscription(filter=%q) panicked: %s", text, p[0].Value)
		}
		got, gerr := s.Sub.GetSubscription(ctx, &pubsubpb.GetSubscriptionRequest{Subscription: sub})
		switch {
		case v == filt.IN && err != nil:
			return "grpc-reject-valid", fmt.Sprintf("CreateSubscription rejected valid filter %q: %v", text, err)
		case v == filt.OUT && err == nil:
			return "grpc-accept-invalid", fmt.Sprintf("CreateSubscription accepted invalid filter %q", text)
		}
		if err != nil {
			if status.Code(gerr) != codes.NotFound {
				return "grpc-stored-rejected", fmt.Sprintf("CreateSubscription(filter=%q) failed (%v) but GetSubscription says %v / %v", text, err, got, gerr)
			}
		} else {
			if gerr != nil || got.Filter != text {
				return "grpc-not-verbatim", fmt.Sprintf("CreateSubscription(filter=%q) succeeded but Get returns filter %q (err %v)", text, got.GetFilter(), gerr)
			}
		}
	case "grpc-update":
		if _, err := s.Sub.CreateSubscription(ctx, &pubsubpb.Subscription{Name: sub, Topic: topic, Filter: oldFilter}); err != nil {
			return "harness", "create sub: " + err.Error()
		}
		_, err := s.Sub.UpdateSubscription(ctx, &pubsubpb.UpdateSubscriptionRequest{
			Subscription: &pubsubpb.Subscription{Name: sub, Filter: text},
			UpdateMask:   &fieldmaskpb.FieldMask{Paths: []string{"filter"}},
		})
		if p := s.TakePanics(); len(p) > 0 {
			return "grpc-panic", fmt.Sprintf("UpdateSubscription(filter=%q) panicked: %s", text, p[0].Value)
		}
		got, gerr := s.Sub.GetSubscription(ctx, &pubsubpb.GetSubscriptionRequest{Subscription: sub})
		if gerr != nil {
			return "grpc-get", fmt.Sprintf("GetSubscription after update failed: %v", gerr)
		}
		switch {
		case v == filt.IN && err != nil:
			return "grpc-reject-valid", fmt.Sprintf("UpdateSubscription rejected valid filter %q: %v", text, err)
		case v == filt.OUT && err == nil:
			return "grpc-accept-invalid", fmt.Sprintf("UpdateSubscription accepted invalid filter %q", text)
		}
		if err != nil && got.Filter != oldFilter {
			return "grpc-stored-rejected", fmt.Sprintf("UpdateSubscription(filter=%q) failed (%v) but the stored filter is now %q", text, err, got.Filter)
		}
		if err == nil && got.Filter != text {
			return "grpc-not-verbatim", fmt.Sprintf("UpdateSubscription(filter=%q) succeeded but Get returns %q", text, got.Filter)
		}
	}
	return "", ""
}

func init() {
	replayers["filter"] = func(t *testing.T, prop string, raw json.RawMessage) {
		var fc filterCase
		if err := json.Unmarshal(raw, &fc); err != nil {
			t.Fatal(err)
		}
		if prop == "C07" {
			replayC07(t, fc)
			return
		}
		var v filt.Verdict
		var want *filt.Cond
		if toks, ok := filt.Lex(fc.Text); ok {
			v, want = filt.Recognise(toks)
		} else {
			v = filt.UNSPEC
		}
		switch fc.Verdict { // the recorded verdict wins (the generator knew the token sequence)
		case "IN":
			v = filt.IN
		case "OUT":
			v, want = filt.OUT, nil
		case "UNSPECIFIED":
			v, want = filt.UNSPEC, nil
		}
		var rule, detail string
		if fc.Via == "" {
			rule, detail = checkFilterText(fc.Text, v, want, fc.Maps)
		} else {
			s, err := sut.New()
			if err != nil {
				t.Fatal(err)
			}
			defer s.Close()
			_ = s.Reset(1, true)
			rule, detail = checkFilterGrpc(context.Background(), s, fc, v)
		}
		if rule != "" {
			violate(t, prop, failure{Rule: rule, Detail: detail})
		}
	}
}

// ---------------------------------------------------------------- native fuzz

// fuzzFilterOracle is shared by the fuzz target and its seed replay.
func fuzzFilterOracle(text string) (string, string) {
	if len(text) > maxFilterBytes || nestDepth(text) > maxFilterDepth {
		return "", ""
	}
	v, want := filt.UNSPEC, (*filt.Cond)(nil)
	if toks, ok := filt.Lex(text); ok {
		v, want = filt.Recognise(toks)
	}
	return checkFilterText(text, v, want, []map[string]string{{}, {"x": "x"}, {"x": "xy", "y": ""}})
}

func FuzzC08Filter(f *testing.F) {
	for _, s := range []string{
		`attributes:x`, `attributes.x="y"`, `attributes.x != "y"`, `hasPrefix(attributes.x,"p")`,
		`NOT attributes:x AND (attributes:y OR -attributes:"a b")`, `attributes:""`, "", "(", "((((", `"`, `attributes."`,
		"attributes:x // c", "attributes:`x`", "attributes:x\x00", "attributes:\xff", `attributes.x="\q"`, `AND`, `attributes:x AND`, `- - attributes:x`,
		`attributes:x AND attributes:y OR attributes:z`, `attributes . x = "1"`, `attributes:1`, `attributes:x1.5`, `attributes.x='y'`,
	} {
		f.Add(s)
	}
	f.Fuzz(func(t *testing.T, text string) {
		if rule, detail := fuzzFilterOracle(text); rule != "" {
			// keep the crasher as a replay file too
			fc := filterCase{Kind: "filter", Text: text}
			p := writeReplay("C08", &failure{Rule: rule, Detail: detail, Replay: fc})
			t.Fatalf("VERIF-FAIL rule=%s replay=%s: %s", rule, p, detail)
		}
	})
}

// ---------------------------------------------------------------- deep-nesting probe

// What precedes the nesting: nothing, and lexemes that a textual pre-scan for
// "am I inside a string" can get wrong while the real lexer still sees every
// parenthesis (quotes inside comments, strings ending in an escaped backslash
// or holding an escaped quote or a backtick).
var deepNestPrefixes = []string{
	"",
	`/*"*/`, "//\"\n", "/*`*/",
	`attributes.d="\\" AND `, `attributes.d="\"" AND `, "attributes.d=\"a`b\" AND ", `attributes:"\\" AND attributes.e!="\\\"" AND `,
}

// TestC08DeepNest probes the stack-exhaustion class through the API in a child
// process: CreateSubscription and UpdateSubscription with a filter of N nested
// parentheses (inside gRPC's 4 MiB message limit). A goroutine stack overflow
// is fatal and cannot be recovered, so the child dies if the class is open.
func TestC08DeepNest(t *testing.T) {
	depths := []int{1001, 20000, 1000000}
	if os.Getenv("VERIF_CHILD") == "deepnest" {
		s, err := sut.New()
		if err != nil {
			fmt.Println("CHILD-INFRA", err)
			return
		}
		defer s.Close()
		_ = s.Reset(1, true)
		ctx := context.Background()
		const topic = "projects/p/topics/t"
		_, _ = s.Pub.CreateTopic(ctx, &pubsubpb.Topic{Name: topic})
		_, _ = s.Sub.CreateSubscription(ctx, &pubsubpb.Subscription{Name: "projects/p/subscriptions/u", Topic: topic})
		for si, pre := range deepNestPrefixes {
			for _, n := range depths {
				text := pre + strings.Repeat("(", n) + "attributes:x" + strings.Repeat(")", n)
				_, e1 := s.Sub.CreateSubscription(ctx, &pubsubpb.Subscription{Name: fmt.Sprintf("projects/p/subscriptions/d%d-%d", si, n), Topic: topic, Filter: text})
				_, e2 := s.Sub.UpdateSubscription(ctx, &pubsubpb.UpdateSubscriptionRequest{
					Subscription: &pubsubpb.Subscription{Name: "projects/p/subscriptions/u", Filter: text},
					UpdateMask:   &fieldmaskpb.FieldMask{Paths: []string{"filter"}},
				})
				fmt.Printf("CHILD-DEPTH %q+%d create=%v update=%v\n", pre, n, status.Code(e1), status.Code(e2))
			}
		}
		fmt.Println("CHILD-RETURNED")
		return
	}
	cmd := exec.Command(os.Args[0], "-test.run", "^TestC08DeepNest$", "-test.timeout", "300s")
	cmd.Env = append(os.Environ(), "VERIF_CHILD=deepnest", "VERIF_STATS=")
	out, err := cmd.CombinedOutput()
	stats.C.EvalN(len(depths) * 2 * len(deepNestPrefixes))
	stats.C.Class("deepnest/requests", len(depths)*2*len(deepNestPrefixes))
	if strings.Contains(string(out), "CHILD-INFRA") {
		t.Fatalf("child could not boot: %s", out)
	}
	if !strings.Contains(string(out), "CHILD-RETURNED") {
		lines := strings.Split(string(out), "\n")
		var keep []string
		for _, l := range lines {
			if strings.HasPrefix(l, "CHILD-") || strings.HasPrefix(l, "runtime:") || strings.HasPrefix(l, "fatal error") {
				keep = append(keep, l)
			}
		}
		violate(t, "C08", failure{
			Rule:   "parse-crash",
			Detail: fmt.Sprintf("a Create/UpdateSubscription request with a deeply nested filter killed the server process (%v): %s", err, strings.Join(keep[:min(6, len(keep))], " | ")),
			Sig:    map[string]any{"class": "deep-nesting"},
			Replay: map[string]any{"kind": "deepnest", "depths": depths},
		})
	}
}

func init() {
	replayers["deepnest"] = func(t *testing.T, prop string, raw json.RawMessage) { TestC08DeepNest(t) }
}
