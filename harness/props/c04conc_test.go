package props

import (
	"context"
	"encoding/json"
	"fmt"
	"sort"
	"strings"
	"testing"
	"time"

	"cloud.google.com/go/pubsub/apiv1/pubsubpb"
	"pgregory.net/rapid"

	"go.6river.tech/mmmbbb/actions"

	"verif/stats"
	"verif/sut"
)

// C04(e): concurrent pullers of one subscription, interleaved at transaction
// boundaries by the gate scheduler. A pull is two transactions (verify +
// refresh, then query + lease), i.e. four boundaries per puller; for two
// pullers all 70 merge orders of their boundaries are run for every generated
// scenario, three pullers are sampled.

type c04cCase struct {
	Kind    string `json:"kind"` // "pullers"
	NMsgs   int    `json:"nmsgs"`
	Max     []int  `json:"max"`   // max_messages per puller
	Order   []int  `json:"order"` // which puller is released at each step
	Ordered bool   `json:"ordered"`
}

const (
	c4T = "projects/p/topics/t"
	c4S = "projects/p/subscriptions/s"
)

func runC04c(s *sut.SUT, cs c04cCase) (rule, detail string, sameWindow bool) {
	ctx := context.Background()
	if err := s.Reset(seed(), false); err != nil {
		return "harness", err.Error(), false
	}
	defer sut.TheGate.SetScheduler(nil)
	if _, err := s.Pub.CreateTopic(ctx, &pubsubpb.Topic{Name: c4T}); err != nil {
		return "harness", err.Error(), false
	}
	if _, err := s.Sub.CreateSubscription(ctx, &pubsubpb.Subscription{Name: c4S, Topic: c4T, EnableMessageOrdering: cs.Ordered}); err != nil {
		return "harness", err.Error(), false
	}
	req := &pubsubpb.PublishRequest{Topic: c4T}
	for i := 0; i < cs.NMsgs; i++ {
		req.Messages = append(req.Messages, &pubsubpb.PubsubMessage{Data: []byte(fmt.Sprintf(`{"i":%d}`, i))})
	}
	if _, err := s.Pub.Publish(ctx, req); err != nil {
		return "harness", err.Error(), false
	}
	n := len(cs.Max)
	actors := make([]string, n)
	for i := range actors {
		actors[i] = fmt.Sprintf("p%d", i)
	}
	sched := sut.NewScheduler(actors...)
	sut.TheGate.SetScheduler(sched)
	type res struct {
		ids      []string
		attempts []int
		err      error
	}
	results := make([]chan res, n)
	for i := 0; i < n; i++ {
		results[i] = make(chan res, 1)
		go func(i int) {
			a := actions.NewGetSubscriptionMessages(actions.GetSubscriptionMessagesParams{Name: c4S, MaxMessages: cs.Max[i], MaxBytes: 1 << 20, MaxWait: time.Nanosecond})
			err := a.ExecuteClient(sut.WithActor(ctx, actors[i]), s.Client)
			r := res{err: err}
			if rr, ok := a.Results(); ok {
				for _, d := range rr.Deliveries {
					r.ids = append(r.ids, d.ID.String())
					r.attempts = append(r.attempts, d.NumAttempts)
				}
			}
			results[i] <- r
		}(i)
	}
	defer sched.ReleaseAll()
	isParked := func(actor string) bool {
		for _, p := range sched.Parked() {
			if strings.HasPrefix(p, actor+"/") {
				return true
			}
		}
		return false
	}
	doneFlags := make([]bool, n)
	got := make([]res, n)
	poll := func() {
		for i := 0; i < n; i++ {
			if !doneFlags[i] {
				select {
				case r := <-results[i]:
					got[i], doneFlags[i] = r, true
				default:
				}
			}
		}
	}
	// wait until every live puller is parked (or finished), then release per the order
	settle := func() bool {
		deadline := time.Now().Add(5 * time.Second)
		for time.Now().Before(deadline) {
			poll()
			all := true
			for i := 0; i < n; i++ {
				if !doneFlags[i] && !isParked(actors[i]) {
					all = false
				}
			}
			if all {
				return true
			}
			time.Sleep(100 * time.Microsecond)
		}
		return false
	}
	fetchSteps := make([]int, n) // boundaries passed per puller
	for _, who := range cs.Order {
		if !settle() {
			return "harness", "pullers did not settle at a boundary", false
		}
		if who >= n || doneFlags[who] || !isParked(actors[who]) {
			continue
		}
		sched.ReleaseActor(actors[who])
		fetchSteps[who]++
	}
	sched.ReleaseAll()
	deadline := time.After(15 * time.Second)
	for i := 0; i < n; i++ {
		if doneFlags[i] {
			continue
		}
		select {
		case r := <-results[i]:
			got[i], doneFlags[i] = r, true
		case <-deadline:
			return "puller-hung", fmt.Sprintf("puller %d did not return within 15 s (order %v)", i, cs.Order), false
		}
	}
	owner := map[string]int{}
	total := 0
	for i, r := range got {
		if r.err != nil {
			return "puller-error", fmt.Sprintf("puller %d failed: %v (order %v)", i, r.err, cs.Order), false
		}
		if len(r.ids) > cs.Max[i] {
			return "too-many", fmt.Sprintf("puller %d received %d messages with max_messages=%d", i, len(r.ids), cs.Max[i]), false
		}
		for k, id := range r.ids {
			if o, dup := owner[id]; dup {
				return "double-delivery", fmt.Sprintf("delivery %s was handed to puller %d and to puller %d inside one lease (boundary release order %v, %d messages, max %v)", id, o, i, cs.Order, cs.NMsgs, cs.Max), true
			}
			owner[id] = i
			if r.attempts[k] != 1 {
				return "delivery-attempt", fmt.Sprintf("first delivery of %s reported attempt %d", id, r.attempts[k]), false
			}
			total++
		}
	}
	want := 0
	for _, m := range cs.Max {
		want += m
	}
	if want > cs.NMsgs {
		want = cs.NMsgs
	}
	// a puller whose query ran before another's lease committed may see fewer rows than remain; but nothing is lost:
	// what was not handed out must still be deliverable now
	r, err := s.Sub.Pull(ctx, &pubsubpb.PullRequest{Subscription: c4S, MaxMessages: 100, ReturnImmediately: true})
	if err != nil {
		return "harness", err.Error(), false
	}
	if total+len(r.ReceivedMessages) != cs.NMsgs {
		return "lost-or-duplicated", fmt.Sprintf("%d messages published, pullers received %d, a final pull %d (order %v)", cs.NMsgs, total, len(r.ReceivedMessages), cs.Order), false
	}
	for _, rm := range r.ReceivedMessages {
		if _, dup := owner[rm.AckId]; dup {
			return "double-delivery", fmt.Sprintf("delivery %s already handed to puller %d was handed out again by a following pull inside its lease", rm.AckId, owner[rm.AckId]), true
		}
	}
	// both fetch transactions inside one lease window: trivially true here (leases are >= 10 s, the schedule takes milliseconds)
	both := 0
	for _, r := range got {
		if len(r.ids) > 0 {
			both++
		}
	}
	return "", "", both >= 1 && n >= 2
}

// mergeOrders enumerates all interleavings of a boundaries of puller 0 with b of puller 1.
func mergeOrders(a, b int) [][]int {
	var out [][]int
	var rec func(x, y int, cur []int)
	rec = func(x, y int, cur []int) {
		if x == 0 && y == 0 {
			out = append(out, append([]int(nil), cur...))
			return
		}
		if x > 0 {
			rec(x-1, y, append(cur, 0))
		}
		if y > 0 {
			rec(x, y-1, append(cur, 1))
		}
	}
	rec(a, b, nil)
	return out
}

func TestC04Concurrent(t *testing.T) {
	defer reportFailure(t, "C04")
	s := getSUT(t)
	defer closeSUT()
	orders2 := mergeOrders(4, 4)
	budget, used := pick(14, 60), 0
	rapid.Check(t, func(rt *rapid.T) {
		// the case count of this (real-time) part is bounded separately from the sequential part
		if used >= budget {
			return
		}
		used++
		base := c04cCase{Kind: "pullers", NMsgs: rapid.IntRange(1, 4).Draw(rt, "nmsgs"), Ordered: rapid.IntRange(0, 3).Draw(rt, "ordered") == 0}
		np := rapid.SampledFrom([]int{2, 2, 2, 3}).Draw(rt, "npullers")
		for i := 0; i < np; i++ {
			base.Max = append(base.Max, rapid.SampledFrom([]int{1, 1, 2, 10}).Draw(rt, "max"))
		}
		var orders [][]int
		if np == 2 {
			// exhaustive at this granularity; the quick tier takes a seed-dependent third
			for i, o := range orders2 {
				if thorough() || i%3 == int(seed()%3) {
					orders = append(orders, o)
				}
			}
		} else {
			for k := 0; k < 12; k++ {
				o := make([]int, 12)
				for j := range o {
					o[j] = rapid.IntRange(0, 2).Draw(rt, "who")
				}
				orders = append(orders, o)
			}
		}
		for _, o := range orders {
			cs := base
			cs.Order = o
			rule, detail, nt := runC04c(s, cs)
			stats.C.Eval("pullers:"+stats.Hash(cs), nt, func() any { return cs })
			stats.C.Class(fmt.Sprintf("schedules/%d-pullers", np), 1)
			if rule == "harness" {
				stats.C.Class("harness-skip", 1)
				stats.C.Note("schedule skipped: %s", detail)
				continue
			}
			if rule != "" {
				failWith(rt, failure{Rule: rule, Detail: detail, Sig: map[string]any{"rule": rule}, Replay: cs})
			}
		}
	})
}

func init() {
	replayers["pullers"] = func(t *testing.T, prop string, raw json.RawMessage) {
		var cs c04cCase
		_ = json.Unmarshal(raw, &cs)
		s := getSUT(t)
		defer closeSUT()
		if rule, detail, _ := runC04c(s, cs); rule != "" && rule != "harness" {
			violate(t, prop, failure{Rule: rule, Detail: detail, Sig: map[string]any{"rule": rule}})
		}
	}
}

var _ = sort.Ints
