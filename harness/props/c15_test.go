package props

import (
	"context"
	"encoding/json"
	"fmt"
	"os"
	"reflect"
	"sort"
	"strings"
	"testing"
	"time"

	"pgregory.net/rapid"

	"go.6river.tech/mmmbbb/actions"

	"verif/hist"
	"verif/stats"
	"verif/sut"
)

var profC15 = &hist.Profile{
	Name: "C15", MinOps: 12, MaxOps: 45, Topics: 3, Subs: 4,
	W: map[string]int{
		hist.OpPublish: 16, hist.OpPull: 18, hist.OpAck: 10, hist.OpModAck: 3, hist.OpNack: 3, hist.OpAdvance: 12,
		hist.OpSeekTime: 2, hist.OpSnapshot: 2, hist.OpSeekSnap: 1, hist.OpSweep: 3, hist.OpJob: 16, hist.MacroOrphanSnapshot: 2, hist.MacroPrunePredecessor: 2,
		hist.OpCreateSub: 5, hist.OpDeleteSub: 3, hist.OpCreateTopic: 2, hist.OpDeleteTopic: 3, hist.OpGetSub: 2, hist.OpGetTopic: 1,
	},
	Ordered: 60, Keys: []string{"", "K1", "K1", "K2"}, Filters: hist.DefaultFilters,
	DLPercent: 35, Attempts: []int{1, 2, 3}, Retry: 60,
	MinBs: []time.Duration{100 * ms, sec, 10 * sec}, MaxBs: []time.Duration{0, sec, 600 * sec},
	Rets: []time.Duration{0, 10 * minute, hour}, NoSelfDL: true, AllowPruneCompleted: true, TargetExpiry: true,
	Prelude: preludeTopics(2),
}

type c15Case struct {
	Kind string    `json:"kind"` // "prune-pair"
	Seed int64     `json:"seed"`
	Ops  []hist.Op `json:"ops"` // the spliced history H'
}

func withoutJobs(ops []hist.Op) []hist.Op {
	var out []hist.Op
	for _, o := range ops {
		if o.K != hist.OpJob {
			out = append(out, o)
		}
	}
	return out
}

// protectedRows lists what no maintenance job may ever remove: live topics and
// subscriptions, outstanding deliveries of live subscriptions, and the
// messages of such deliveries.
func protectedRows(s *sut.SUT, now time.Time) (map[string]bool, error) {
	out := map[string]bool{}
	ts := now.UTC().Format("2006-01-02 15:04:05.999999999-07:00")
	qs := map[string]string{
		"topic":        "SELECT id FROM topics WHERE deleted_at IS NULL",
		"subscription": "SELECT id FROM subscriptions WHERE deleted_at IS NULL",
		"delivery":     "SELECT d.id FROM deliveries d JOIN subscriptions s ON s.id = d.subscription_id WHERE s.deleted_at IS NULL AND d.completed_at IS NULL AND d.expires_at > ?",
		"message":      "SELECT DISTINCT d.message_id FROM deliveries d JOIN subscriptions s ON s.id = d.subscription_id WHERE s.deleted_at IS NULL AND d.completed_at IS NULL AND d.expires_at > ?",
		// a snapshot goes with its topic ROW: it is protected while the topic is live, and also while a
		// deleted topic is kept because a live subscription (which can still be snapshotted and seeked) hangs on it
		"snapshot": "SELECT n.id FROM snapshots n JOIN topics t ON t.id = n.topic_id WHERE t.deleted_at IS NULL OR EXISTS (SELECT 1 FROM subscriptions s WHERE s.topic_id = t.id AND s.deleted_at IS NULL)",
	}
	for kind, q := range qs {
		var args []any
		if strings.Contains(q, "?") {
			args = append(args, ts)
		}
		rows, err := s.Raw.Query(q, args...)
		if err != nil {
			return nil, err
		}
		for rows.Next() {
			var id string
			if err := rows.Scan(&id); err != nil {
				rows.Close()
				return nil, err
			}
			out[kind+":"+id] = true
		}
		rows.Close()
	}
	return out, nil
}

func existingRows(s *sut.SUT) (map[string]bool, error) {
	out := map[string]bool{}
	for kind, table := range map[string]string{"topic": "topics", "subscription": "subscriptions", "delivery": "deliveries", "message": "messages", "snapshot": "snapshots"} {
		rows, err := s.Raw.Query("SELECT id FROM " + table)
		if err != nil {
			return nil, err
		}
		for rows.Next() {
			var id string
			_ = rows.Scan(&id)
			out[kind+":"+id] = true
		}
		rows.Close()
	}
	return out, nil
}

// runWithInvariant replays ops; before/after every job it checks that nothing
// protected disappeared. Returns the runner and a violation detail.
func runWithInvariant(s *sut.SUT, ops []hist.Op, sd int64) (*hist.Runner, string) {
	if err := s.Reset(sd, true); err != nil {
		panic(err)
	}
	r := hist.NewRunner(s, "NONE")
	for i, op := range ops {
		var prot map[string]bool
		if op.K == hist.OpJob {
			// "outstanding" with the model's margin: a delivery whose retention ends
			// within 10 ms of the job's own clock reading may legitimately be reaped
			prot, _ = protectedRows(s, sut.Now().Add(hist.Eps))
		}
		if !r.Step(op) {
			break
		}
		if op.K == hist.OpJob {
			have, _ := existingRows(s)
			var lost []string
			for k := range prot {
				if !have[k] {
					lost = append(lost, k)
				}
			}
			if len(lost) > 0 {
				sort.Strings(lost)
				return r, fmt.Sprintf("step %d %s removed rows that are live or outstanding: %v", i, op, lost)
			}
		}
	}
	return r, ""
}

func traceDiff(a, b []hist.TraceEntry, limit int) string {
	n := len(a)
	if len(b) < n {
		n = len(b)
	}
	for i := 0; i < n; i++ {
		x, y := a[i], b[i]
		if limit >= 0 && x.Op >= limit {
			return ""
		}
		if x.Kind != y.Kind || x.Target != y.Target {
			return fmt.Sprintf("trace position %d: different operations %s/%s vs %s/%s (harness)", i, x.Kind, x.Target, y.Kind, y.Target)
		}
		if x.Code != y.Code {
			return fmt.Sprintf("%s(%s): status %s without maintenance jobs, %s with them", x.Kind, x.Target, x.Code, y.Code)
		}
		if x.Kind == hist.OpPull {
			if x.Info == "nondet" || y.Info == "nondet" {
				if x.N != y.N || !reflect.DeepEqual(x.Pull, y.Pull) {
					// a response the statement leaves open came out differently:
					// from here on the handles of later acks name different
					// deliveries in the two runs, so they are no longer twins
					stats.C.Class("pairs-compared-up-to-an-open-response", 1)
					return ""
				}
				continue
			}
			if x.Info == "truncated" || y.Info == "truncated" {
				if x.N != y.N {
					return fmt.Sprintf("Pull(%s) (truncated) returned %d messages without maintenance jobs, %d with them", x.Target, x.N, y.N)
				}
				continue
			}
			if !reflect.DeepEqual(x.Pull, y.Pull) {
				return fmt.Sprintf("Pull(%s) returned %v without maintenance jobs and %v with them (message#@attempt)", x.Target, x.Pull, y.Pull)
			}
		}
	}
	return ""
}

func checkPrunePair(s *sut.SUT, cs c15Case) (rule, detail string, jobsDeleted int, excluded bool) {
	// H' : with jobs, with the direct invariant
	r2, inv := runWithInvariant(s, cs.Ops, cs.Seed)
	if inv != "" {
		return "job-removed-live-data", inv, 0, false
	}
	jobsDeleted = r2.M.C["job-deleted"]
	trace2 := append([]hist.TraceEntry(nil), r2.Trace...)
	limit := r2.PruneRewindAt
	// renumber trace positions of H' to those of H (jobs carry no trace entries but shift op indices)
	idx := 0
	remap := map[int]int{}
	for i, o := range cs.Ops {
		if o.K != hist.OpJob {
			remap[i] = idx
			idx++
		}
	}
	for i := range trace2 {
		trace2[i].Op = remap[trace2[i].Op]
	}
	if limit >= 0 {
		limit = remap[limit]
		excluded = true
	}
	// H : the same history without the jobs
	wo := withoutJobs(cs.Ops)
	r1 := hist.Replay(s, wo, cs.Seed, "NONE")
	// the jobs consume a few microsecond ticks of the virtual clock, so publish
	// times differ by microseconds between the twins while a Seek names an
	// absolute time: a seek that lands within a millisecond of a publish time
	// may fall on different sides of it in the two runs - compare up to there
	for i, o := range wo {
		if o.K != hist.OpSeekTime {
			continue
		}
		at := sut.Epoch.Add(time.Duration(o.At))
		var pubs []time.Time
		for _, mdl := range []*hist.Model{r1.M, r2.M} {
			for _, msg := range mdl.Msgs {
				pubs = append(pubs, msg.Pub)
			}
			for _, sb := range mdl.AllSubs {
				for _, dl := range sb.Dels {
					pubs = append(pubs, dl.Pub) // forwards carry their own time
				}
			}
		}
		for _, pt := range pubs {
			if d := pt.Sub(at); d > -time.Millisecond && d < time.Millisecond && (limit < 0 || i < limit) {
				limit = i
				stats.C.Class("pairs-compared-up-to-a-seek-on-a-publish-time", 1)
			}
		}
	}
	if d := traceDiff(r1.Trace, trace2, limit); d != "" {
		return "client-visible-difference", d, jobsDeleted, excluded
	}
	return "", "", jobsDeleted, excluded
}

func TestC15(t *testing.T) {
	defer reportFailure(t, "C15")
	if thorough() {
		profC15.MaxOps = 70
	}
	s := getSUT(t)
	defer closeSUT()
	t.Run("pairs", func(t *testing.T) {
		rapid.Check(t, func(rt *rapid.T) {
			// generate H' with the model-driven generator (jobs included)
			r := hist.Run(rt, s, profC15, seed(), "NONE")
			if r.Diverged != "" {
				stats.C.Class("diverged", 1)
				stats.C.Note("diverged: %s", r.Diverged)
				return
			}
			cs := c15Case{Kind: "prune-pair", Seed: seed(), Ops: r.Ops}
			rule, detail, deleted, excluded := checkPrunePair(s, cs)
			njobs := 0
			for _, o := range cs.Ops {
				if o.K == hist.OpJob {
					njobs++
				}
			}
			if excluded {
				stats.C.Exclude("trace-compared-only-up-to-a-rewind-seek-after-prune-completed", 1)
			}
			stats.C.Eval(stats.Hash(cs.Ops), njobs >= 3 && deleted > 0, func() any { return map[string]any{"ops": opStrings(cs.Ops), "rows_deleted_by_jobs": deleted} })
			stats.C.Class("pairs", 1)
			stats.C.Class("jobs-spliced", njobs)
			stats.C.Class("rows-deleted-by-jobs", deleted)
			if rule != "" {
				failWith(rt, failure{Rule: rule, Detail: detail + "\nhistory with jobs: " + fmt.Sprint(opStrings(cs.Ops)), Sig: map[string]any{"rule": rule}, Replay: cs})
			}
		})
	})
	t.Run("convergence", func(t *testing.T) {
		rapid.Check(t, func(rt *rapid.T) {
			r := hist.Run(rt, s, profC15, seed(), "NONE")
			if r.Diverged != "" {
				return
			}
			cc := c15Conv{Kind: "prune-convergence", Seed: seed(), Ops: r.Ops, DeleteAll: rapid.IntRange(0, 3).Draw(rt, "deleteall") != 0}
			n := rapid.IntRange(3, 8).Draw(rt, "norders")
			for i := 0; i < n; i++ {
				cc.Orders = append(cc.Orders, rapid.Permutation([]int{0, 1, 2, 3, 4, 5, 6, 7}).Draw(rt, "order"))
				cc.Batches = append(cc.Batches, rapid.SampledFrom([]int{1, 2, 3, 100}).Draw(rt, "batch"))
			}
			rule, detail, rounds := checkConvergence(s, cc)
			stats.C.Eval("conv:"+stats.Hash(cc), true, func() any {
				return map[string]any{"convergence": true, "ops": opStrings(cc.Ops), "delete_all": cc.DeleteAll, "rounds": rounds}
			})
			stats.C.Class("convergence-runs", 1)
			stats.C.Class("convergence-rounds", rounds)
			if rule != "" {
				failWith(rt, failure{Rule: rule, Detail: detail, Sig: map[string]any{"rule": rule}, Replay: cc})
			}
		})
	})
}

type c15Conv struct {
	Kind      string    `json:"kind"` // "prune-convergence"
	Seed      int64     `json:"seed"`
	Ops       []hist.Op `json:"ops"`
	DeleteAll bool      `json:"delete_all"`
	Orders    [][]int   `json:"orders"`
	Batches   []int     `json:"batches"`
}

var convJobs = []string{"completed-deliveries", "expired-deliveries", "completed-messages", "deleted-subscription-deliveries", "deleted-subscriptions", "deleted-topics", "expired-subscriptions", "sweep"}

// checkConvergence: after everything (or most of it) has been deleted and the
// age threshold has passed, rounds of all jobs in the given orders and batch
// sizes reach a fixpoint where only live data remains and no job errors.
func checkConvergence(s *sut.SUT, cc c15Conv) (rule, detail string, rounds int) {
	ctx := context.Background()
	r := hist.Replay(s, cc.Ops, cc.Seed, "NONE")
	if r.Diverged != "" {
		return "", "", 0
	}
	// end of life: delete subscriptions and topics
	subs := r.M.LiveSubs()
	for i, sb := range subs {
		if cc.DeleteAll || i%2 == 0 {
			r.Step(hist.Op{K: hist.OpDeleteSub, S: sb.Name})
		}
	}
	var tnames []string
	for n, tp := range r.M.Topics {
		if tp.Live {
			tnames = append(tnames, n)
		}
	}
	sort.Strings(tnames)
	for i, n := range tnames {
		if cc.DeleteAll || i%2 == 0 {
			r.Step(hist.Op{K: hist.OpDeleteTopic, T: n})
		}
	}
	minAge := time.Second
	sut.Advance(time.Hour)
	total := 0
	for _, tb := range []string{"topics", "subscriptions", "messages", "deliveries", "snapshots"} {
		total += s.Count(tb)
	}
	maxRounds := total + 5
	var lastErrs []string
	runRounds := func() {
		for rounds = 1; rounds <= maxRounds+len(cc.Orders); rounds++ {
			order := cc.Orders[(rounds-1)%len(cc.Orders)]
			batch := cc.Batches[(rounds-1)%len(cc.Batches)]
			deleted := 0
			lastErrs = nil
			// time passes between rounds (a subscription expired by one round is old
			// enough for the age threshold in the next)
			sut.Advance(2 * minAge)
			for _, j := range order {
				name := convJobs[j]
				if name == "sweep" {
					a := actions.NewDeadLetterDeliveries(actions.DeadLetterDeliveriesParams{MaxDeliveries: batch})
					if err := s.Client.DoCtxTx(ctx, nil, a.Execute); err != nil {
						lastErrs = append(lastErrs, "sweep: "+err.Error())
					} else if res, ok := a.Results(); ok {
						deleted += res.NumDeadLettered
					}
					continue
				}
				n, err := hist.RunJob(ctx, s, name, minAge, batch)
				if err != nil {
					lastErrs = append(lastErrs, name+": "+err.Error())
				}
				if name != "expired-subscriptions" || n > 0 {
					deleted += n
				}
			}
			if deleted == 0 {
				break
			}
		}
	}
	runRounds()
	if len(lastErrs) > 0 && rounds <= maxRounds && !cc.DeleteAll {
		// part of the data is still alive, and a live delivery may pin what a
		// job wants to remove (a dead-letter forward keeps the message of a
		// deleted topic): that is not "stuck" unless it outlives the pin. Let
		// every retention run out and go to the fixpoint again.
		sut.Advance(8 * 24 * time.Hour)
		runRounds()
	}
	if rounds > maxRounds {
		return "no-fixpoint", fmt.Sprintf("after %d rounds of all maintenance jobs (initially %d rows) a round still deletes rows", rounds, total), rounds
	}
	if len(lastErrs) > 0 {
		if os.Getenv("VERIF_DEBUG") != "" {
			for _, q := range []string{
				"select 'topic', id, name, deleted_at, live from topics",
				"select 'sub', id, name, deleted_at, topic_id || ' dl=' || coalesce(dead_letter_topic_id,'-') from subscriptions",
				"select 'msg', id, topic_id, '', '' from messages",
				"select 'snap', id, name, topic_id, '' from snapshots",
				"select 'del', id, subscription_id, completed_at, expires_at from deliveries",
			} {
				rows, err := s.Raw.Query(q)
				if err != nil {
					fmt.Println("   debug query failed:", err)
					continue
				}
				for rows.Next() {
					var a, b, c, d, e any
					_ = rows.Scan(&a, &b, &c, &d, &e)
					fmt.Printf("   left %v %v %v %v %v\n", a, b, c, d, e)
				}
				rows.Close()
			}
		}
		return "job-stuck", fmt.Sprintf("at the fixpoint (round %d, nothing left to delete) these jobs still fail, and will fail on every later run: %v", rounds, lastErrs), rounds
	}
	// what may remain: live topics / subscriptions, topics still referenced by
	// live subscriptions, snapshots of live topics, outstanding deliveries of
	// live subscriptions and their messages
	now := sut.Now().UTC().Format("2006-01-02 15:04:05.999999999-07:00")
	leftovers := []struct{ what, q string }{
		{"deleted subscriptions", "SELECT name FROM subscriptions WHERE deleted_at IS NOT NULL"},
		// (a deleted topic stays while a live subscription is attached to it or still names it in its dead-letter policy)
		{"deleted topics that no live subscription refers to", "SELECT name FROM topics t WHERE deleted_at IS NOT NULL AND NOT EXISTS (SELECT 1 FROM subscriptions s WHERE (s.topic_id = t.id OR s.dead_letter_topic_id = t.id) AND s.deleted_at IS NULL)"},
		{"completed deliveries", "SELECT id FROM deliveries WHERE completed_at IS NOT NULL"},
		{"expired deliveries", "SELECT id FROM deliveries WHERE expires_at < '" + now + "'"},
		{"deliveries of deleted subscriptions", "SELECT d.id FROM deliveries d JOIN subscriptions s ON s.id = d.subscription_id WHERE s.deleted_at IS NOT NULL"},
		{"messages without deliveries", "SELECT id FROM messages m WHERE NOT EXISTS (SELECT 1 FROM deliveries d WHERE d.message_id = m.id)"},
		{"snapshots of deleted topics without live subscriptions", "SELECT n.name FROM snapshots n JOIN topics t ON t.id = n.topic_id WHERE t.deleted_at IS NOT NULL AND NOT EXISTS (SELECT 1 FROM subscriptions s WHERE (s.topic_id = t.id OR s.dead_letter_topic_id = t.id) AND s.deleted_at IS NULL)"},
	}
	for _, l := range leftovers {
		rows, err := s.Raw.Query(l.q)
		if err != nil {
			return "harness", err.Error(), rounds
		}
		var ids []string
		for rows.Next() {
			var id string
			_ = rows.Scan(&id)
			ids = append(ids, id)
		}
		rows.Close()
		if len(ids) > 0 {
			if len(ids) > 5 {
				ids = ids[:5]
			}
			return "dead-data-left", fmt.Sprintf("fixpoint after %d rounds: %s are never reclaimed: %v", rounds, l.what, ids), rounds
		}
	}
	return "", "", rounds
}

func init() {
	replayers["prune-pair"] = func(t *testing.T, prop string, raw json.RawMessage) {
		var cs c15Case
		if err := json.Unmarshal(raw, &cs); err != nil {
			t.Fatal(err)
		}
		s := getSUT(t)
		defer closeSUT()
		if rule, detail, _, _ := checkPrunePair(s, cs); rule != "" {
			violate(t, prop, failure{Rule: rule, Detail: detail, Sig: map[string]any{"rule": rule}})
		}
	}
	replayers["prune-convergence"] = func(t *testing.T, prop string, raw json.RawMessage) {
		var cc c15Conv
		if err := json.Unmarshal(raw, &cc); err != nil {
			t.Fatal(err)
		}
		s := getSUT(t)
		defer closeSUT()
		if rule, detail, _ := checkConvergence(s, cc); rule != "" {
			violate(t, prop, failure{Rule: rule, Detail: detail, Sig: map[string]any{"rule": rule}})
		}
	}
}
