package props

import (
	"context"
	"encoding/base64"
	"encoding/json"
	"errors"
	"fmt"
	"io"
	"net/http"
	"sort"
	"strings"
	"sync"
	"testing"
	"time"

	"cloud.google.com/go/pubsub/apiv1/pubsubpb"
	"github.com/google/uuid"
	"google.golang.org/protobuf/types/known/durationpb"
	"pgregory.net/rapid"

	"go.6river.tech/mmmbbb/actions"
	"go.6river.tech/mmmbbb/services"

	"verif/stats"
	"verif/sut"
)

// one planned answer of the scripted endpoint
type c19Reply struct {
	Status int  `json:"status"` // 0 = transport error
	Slow   bool `json:"slow"`   // a real 1.05 s hold (the fast/slow threshold is wall clock)
	HoldMs int  `json:"hold_ms"`
}

type c19Msg struct {
	Data    string            `json:"data"`
	Attrs   map[string]string `json:"attrs,omitempty"`
	Key     string            `json:"key,omitempty"`
	Replies []c19Reply        `json:"replies"` // per attempt; the last one is a success
}

type c19Case struct {
	Kind    string   `json:"kind"` // "push"
	Msgs    []c19Msg `json:"msgs"`
	Manager bool     `json:"manager"` // through the services push manager (push_config over gRPC) instead of a bare pusher
}

var c19Success = map[int]bool{200: true, 201: true, 202: true, 204: true, 102: true}

type pushSeen struct {
	Marker  int
	Attempt int
	At      time.Time
	Body    []byte
	Reply   c19Reply
}

type c19Endpoint struct {
	mu        sync.Mutex
	cs        *c19Case
	seen      []pushSeen
	perMsg    map[int]int // pushes so far per message marker
	inflight  int
	maxIn     int
	fastOK    int
	violation string
	byID      map[string]int // message id -> marker (filled after publish)
	done      map[int]time.Time
}

type errBody struct{}

func (errBody) Read([]byte) (int, error) { return 0, io.EOF }
func (errBody) Close() error             { return nil }

func (e *c19Endpoint) RoundTrip(req *http.Request) (*http.Response, error) {
	body, _ := io.ReadAll(req.Body)
	req.Body.Close()
	var env struct {
		Message struct {
			MessageId string `json:"messageId"`
		} `json:"message"`
	}
	_ = json.Unmarshal(body, &env)
	e.mu.Lock()
	marker, known := e.byID[env.Message.MessageId]
	if !known {
		marker = -1
	}
	e.perMsg[marker]++
	attempt := e.perMsg[marker]
	var rp c19Reply
	if known {
		plan := e.cs.Msgs[marker].Replies
		if attempt <= len(plan) {
			rp = plan[attempt-1]
		} else {
			rp = c19Reply{Status: 200}
		}
	} else {
		rp = c19Reply{Status: 200}
	}
	e.inflight++
	if e.inflight > e.maxIn {
		e.maxIn = e.inflight
	}
	if e.inflight > 1000 && e.violation == "" {
		e.violation = fmt.Sprintf("window: %d concurrent pushes (the window is capped at 1000)", e.inflight)
	}
	if e.inflight > 1+e.fastOK && e.violation == "" {
		e.violation = fmt.Sprintf("window: %d concurrent pushes after only %d fast successes (the additive window starts at 1 and grows by one per fast success)", e.inflight, e.fastOK)
	}
	if t, ok := e.done[marker]; ok && known && e.violation == "" {
		e.violation = fmt.Sprintf("pushed-after-success: message #%d was pushed again (push %d) %v after the endpoint answered it with a success status", marker, attempt, time.Since(t).Round(time.Millisecond))
	}
	e.seen = append(e.seen, pushSeen{Marker: marker, Attempt: attempt, At: time.Now(), Body: body, Reply: rp})
	e.mu.Unlock()

	if rp.Slow {
		time.Sleep(1050 * time.Millisecond)
	} else if rp.HoldMs > 0 {
		time.Sleep(time.Duration(rp.HoldMs) * time.Millisecond)
	}
	e.mu.Lock()
	e.inflight--
	if c19Success[rp.Status] {
		if !rp.Slow {
			e.fastOK++
		}
		if known {
			e.done[marker] = time.Now()
		}
	}
	e.mu.Unlock()
	if rp.Status == 0 {
		return nil, errors.New("verif: scripted transport failure")
	}
	return &http.Response{StatusCode: rp.Status, Status: fmt.Sprintf("%d scripted", rp.Status), Proto: "HTTP/1.1", ProtoMajor: 1, ProtoMinor: 1,
		Header: http.Header{"Content-Type": []string{"text/plain"}}, Body: io.NopCloser(strings.NewReader("ok")), Request: req}, nil
}

const (
	c19T   = "projects/p/topics/t"
	c19S   = "projects/p/subscriptions/push"
	c19URL = "http://push.verif.test/endpoint"
)

// checkEnvelope compares one pushed body with what was published.
func checkEnvelope(body []byte, m c19Msg, msgID string, attempt int) string {
	var env struct {
		Message struct {
			Data        string            `json:"data"`
			Attributes  map[string]string `json:"attributes"`
			MessageId   string            `json:"messageId"`
			PublishTime string            `json:"publishTime"`
			OrderingKey string            `json:"orderingKey"`
		} `json:"message"`
		Subscription    string `json:"subscription"`
		DeliveryAttempt *int   `json:"deliveryAttempt"`
	}
	dec := json.NewDecoder(strings.NewReader(string(body)))
	if err := dec.Decode(&env); err != nil {
		return fmt.Sprintf("body is not the documented JSON envelope: %v (%.200s)", err, body)
	}
	raw, err := base64.StdEncoding.DecodeString(env.Message.Data)
	if err != nil {
		return fmt.Sprintf("message.data is not base64: %v", err)
	}
	if !jsonValueEqual(raw, []byte(m.Data)) {
		return fmt.Sprintf("message.data decodes to %q, published %q", raw, m.Data)
	}
	if !attrsEq(env.Message.Attributes, m.Attrs) {
		return fmt.Sprintf("attributes %v, published %v", env.Message.Attributes, m.Attrs)
	}
	if env.Message.MessageId != msgID {
		return fmt.Sprintf("messageId %q, Publish returned %q", env.Message.MessageId, msgID)
	}
	if env.Message.OrderingKey != m.Key {
		return fmt.Sprintf("orderingKey %q, published %q", env.Message.OrderingKey, m.Key)
	}
	if _, err := time.Parse(time.RFC3339Nano, env.Message.PublishTime); err != nil {
		return fmt.Sprintf("publishTime %q is not RFC 3339: %v", env.Message.PublishTime, err)
	}
	if env.Subscription != c19S {
		return fmt.Sprintf("subscription %q, expected %q", env.Subscription, c19S)
	}
	if env.DeliveryAttempt == nil || *env.DeliveryAttempt != attempt {
		return fmt.Sprintf("deliveryAttempt %v, this is push number %d of the message", env.DeliveryAttempt, attempt)
	}
	return ""
}

func jsonValueEqual(a, b []byte) bool {
	var va, vb any
	da, db := json.NewDecoder(strings.NewReader(string(a))), json.NewDecoder(strings.NewReader(string(b)))
	da.UseNumber()
	db.UseNumber()
	if da.Decode(&va) != nil || db.Decode(&vb) != nil {
		return false
	}
	ja, _ := json.Marshal(va)
	jb, _ := json.Marshal(vb)
	return string(ja) == string(jb)
}

var c19TransportMu sync.Mutex

func runC19(s *sut.SUT, cs c19Case) (rule, detail string, nontrivial bool) {
	ctx := context.Background()
	if err := s.Reset(seed(), false); err != nil {
		return "harness", err.Error(), false
	}
	ep := &c19Endpoint{cs: &cs, perMsg: map[int]int{}, byID: map[string]int{}, done: map[int]time.Time{}}
	if _, err := s.Pub.CreateTopic(ctx, &pubsubpb.Topic{Name: c19T}); err != nil {
		return "harness", err.Error(), false
	}
	sub := &pubsubpb.Subscription{Name: c19S, Topic: c19T,
		RetryPolicy: &pubsubpb.RetryPolicy{MinimumBackoff: durationpb.New(400 * time.Millisecond), MaximumBackoff: durationpb.New(500 * time.Millisecond)}}
	if cs.Manager {
		sub.PushConfig = &pubsubpb.PushConfig{PushEndpoint: c19URL}
	}
	if _, err := s.Sub.CreateSubscription(ctx, sub); err != nil {
		return "harness", err.Error(), false
	}
	// publish first (ids must be known to the endpoint before the first push)
	req := &pubsubpb.PublishRequest{Topic: c19T}
	for _, m := range cs.Msgs {
		req.Messages = append(req.Messages, &pubsubpb.PubsubMessage{Data: []byte(m.Data), Attributes: m.Attrs, OrderingKey: m.Key})
	}
	pr, err := s.Pub.Publish(ctx, req)
	if err != nil {
		return "harness", err.Error(), false
	}
	ep.mu.Lock()
	for i, id := range pr.MessageIds {
		ep.byID[id] = i
	}
	ep.mu.Unlock()

	pctx, cancel := context.WithCancel(ctx)
	done := make(chan error, 1)
	if cs.Manager {
		c19TransportMu.Lock()
		old := http.DefaultTransport
		http.DefaultTransport = ep
		defer func() { http.DefaultTransport = old; c19TransportMu.Unlock() }()
		svc := services.VerifHttpPusher()
		if err := svc.Initialize(ctx, s.Client); err != nil {
			cancel()
			return "harness", err.Error(), false
		}
		ready := make(chan struct{})
		go func() { done <- svc.Start(pctx, ready) }()
		defer func() { _ = svc.Cleanup(ctx) }()
	} else {
		var id string
		if err := s.Raw.QueryRow("SELECT id FROM subscriptions WHERE name = ?", c19S).Scan(&id); err != nil {
			cancel()
			return "harness", err.Error(), false
		}
		p := actions.NewHttpPusher(c19S, uuid.MustParse(id), c19URL, &http.Client{Transport: ep}, s.Client)
		go func() { done <- p.Go(pctx) }()
	}
	defer func() {
		cancel()
		select {
		case <-done:
		case <-time.After(10 * time.Second):
		}
	}()

	// expected number of pushes per message and the time budget
	slow, total := 0, 0
	for _, m := range cs.Msgs {
		total += len(m.Replies)
		for _, r := range m.Replies {
			if r.Slow {
				slow++
			}
		}
	}
	deadline := time.Now().Add(time.Duration(6+2*slow)*time.Second + time.Duration(total)*900*time.Millisecond)
	for time.Now().Before(deadline) {
		ep.mu.Lock()
		n, viol := len(ep.done), ep.violation
		ep.mu.Unlock()
		if viol != "" || n == len(cs.Msgs) {
			break
		}
		time.Sleep(5 * time.Millisecond)
	}
	// a success must be final: watch for two more backoff periods
	time.Sleep(1100 * time.Millisecond)
	ep.mu.Lock()
	defer ep.mu.Unlock()
	if ep.violation != "" {
		return strings.SplitN(ep.violation, ":", 2)[0], ep.violation, false
	}
	for i, m := range cs.Msgs {
		if _, ok := ep.done[i]; !ok {
			var last *pushSeen
			for k := range ep.seen {
				if ep.seen[k].Marker == i {
					last = &ep.seen[k]
				}
			}
			if last == nil {
				return "not-pushed", fmt.Sprintf("message #%d (%s) of a push subscription was never POSTed to the endpoint (%d pushes seen in total)", i, m.Data, len(ep.seen)), false
			}
			return "not-retried", fmt.Sprintf("message #%d: push %d was answered with status %d (0 = transport error) %v ago and it has not been pushed again (retry policy 400-500 ms)", i, last.Attempt, last.Reply.Status, time.Since(last.At).Round(time.Millisecond)), false
		}
	}
	grew := false
	for _, p := range ep.seen {
		if p.Marker < 0 {
			return "unknown-message", fmt.Sprintf("the endpoint received a message id that Publish never returned: %.200s", p.Body), false
		}
		if d := checkEnvelope(p.Body, cs.Msgs[p.Marker], pr.MessageIds[p.Marker], p.Attempt); d != "" {
			return "envelope", fmt.Sprintf("push %d of message #%d: %s", p.Attempt, p.Marker, d), false
		}
	}
	if ep.maxIn > 1 {
		grew = true
	}
	// success => the delivery is completed in storage
	var open int
	_ = s.Raw.QueryRow("SELECT count(*) FROM deliveries WHERE completed_at IS NULL").Scan(&open)
	if open != 0 {
		// the ack transaction may still be in flight: give it a moment
		ep.mu.Unlock()
		time.Sleep(300 * time.Millisecond)
		ep.mu.Lock()
		_ = s.Raw.QueryRow("SELECT count(*) FROM deliveries WHERE completed_at IS NULL").Scan(&open)
		if open != 0 {
			return "not-acked", fmt.Sprintf("every message got a success response but %d deliveries are still not acknowledged in storage", open), false
		}
	}
	hadRetry := false
	for _, m := range cs.Msgs {
		if len(m.Replies) > 1 {
			hadRetry = true
		}
	}
	return "", "", hadRetry && grew
}

func genC19(rt *rapid.T, statuses []int) c19Case {
	cs := c19Case{Kind: "push"}
	if rapid.IntRange(0, 5).Draw(rt, "shape") == 0 {
		// window-boundary shape: W fast successes grow the window to exactly
		// W+1, then one message fails (held, so that every success is in before
		// its failure is seen) - the subtractive step lands on a multiple of 10
		w := rapid.SampledFrom([]int{9, 9, 10, 11}).Draw(rt, "warm")
		if thorough() {
			w = rapid.SampledFrom([]int{9, 10, 19, 20, 29}).Draw(rt, "warm")
		}
		for i := 0; i < w; i++ {
			cs.Msgs = append(cs.Msgs, c19Msg{Data: fmt.Sprintf(`{"i":%d}`, i), Replies: []c19Reply{{Status: 204}}})
		}
		nf := rapid.IntRange(1, 2).Draw(rt, "nfail")
		m := c19Msg{Data: fmt.Sprintf(`{"i":%d}`, w)}
		for j := 0; j < nf; j++ {
			st := rapid.SampledFrom(statuses).Draw(rt, "failstatus")
			for c19Success[st] {
				st = 500
			}
			m.Replies = append(m.Replies, c19Reply{Status: st, HoldMs: 120})
		}
		m.Replies = append(m.Replies, c19Reply{Status: 200})
		cs.Msgs = append(cs.Msgs, m)
		cs.Manager = rapid.IntRange(0, 3).Draw(rt, "manager") == 0
		return cs
	}
	n := rapid.IntRange(1, pick(12, 30)).Draw(rt, "nmsg")
	slowLeft := 3
	for i := 0; i < n; i++ {
		m := c19Msg{Data: fmt.Sprintf(`{"i":%d}`, i)}
		switch rapid.IntRange(0, 4).Draw(rt, "datakind") {
		case 0:
			m.Data = rapid.SampledFrom(richDataC19).Draw(rt, "data")
		case 1:
			m.Data = fmt.Sprintf(`{"i":%d,"s":%q}`, i, rapid.StringN(0, 12, 40).Draw(rt, "str"))
		}
		if rapid.Bool().Draw(rt, "hasattrs") {
			m.Attrs = map[string]string{}
			for j := 0; j < rapid.IntRange(1, 3).Draw(rt, "nattr"); j++ {
				m.Attrs[rapid.SampledFrom([]string{"a", "b", "", "é", "content-type"}).Draw(rt, "ak")] = rapid.SampledFrom([]string{"", "v", "é😀", "a=b&c"}).Draw(rt, "av")
			}
		}
		if rapid.IntRange(0, 3).Draw(rt, "haskey") == 0 {
			m.Key = rapid.SampledFrom([]string{"k1", "ключ"}).Draw(rt, "key")
		}
		nf := rapid.SampledFrom([]int{0, 0, 0, 1, 1, 2}).Draw(rt, "nfail")
		for j := 0; j < nf; j++ {
			st := rapid.SampledFrom(statuses).Draw(rt, "failstatus")
			for c19Success[st] {
				st = 500
			}
			fr := c19Reply{Status: st, HoldMs: rapid.SampledFrom([]int{0, 0, 5, 40}).Draw(rt, "hold")}
			// a failure may be slow as well: the answer still decides, not the time it took
			if slowLeft > 0 && rapid.IntRange(0, 7).Draw(rt, "slowfail") == 0 {
				fr.Slow = true
				slowLeft--
			}
			m.Replies = append(m.Replies, fr)
		}
		ok := c19Reply{Status: rapid.SampledFrom([]int{200, 200, 201, 202, 204, 102}).Draw(rt, "okstatus"), HoldMs: rapid.SampledFrom([]int{0, 0, 5, 40, 120}).Draw(rt, "hold")}
		if slowLeft > 0 && rapid.IntRange(0, 9).Draw(rt, "slow") == 0 {
			ok.Slow = true
			slowLeft--
		}
		m.Replies = append(m.Replies, ok)
		cs.Msgs = append(cs.Msgs, m)
	}
	cs.Manager = rapid.IntRange(0, 3).Draw(rt, "manager") == 0
	return cs
}

var richDataC19 = []string{`[]`, `"s"`, `null`, `{"html":"<b>&amp;</b>"}`, `{"u":"é😀"}`, `{"n":9007199254740993}`, ` { "ws" : 1 } `, `{"nested":{"a":[1,{"b":null}]}}`}

func c19Statuses() []int {
	// non-success statuses: the interesting neighbours plus a seed-dependent slice of 200-599
	out := []int{0, 0, 203, 205, 206, 300, 301, 304, 400, 404, 408, 429, 500, 502, 503, 599, 100, 101}
	off := int(seed() % 7)
	for st := 200 + off; st <= 599; st += 7 {
		out = append(out, st)
	}
	if thorough() {
		for st := 200; st <= 599; st++ {
			out = append(out, st)
		}
	}
	return out
}

func TestC19(t *testing.T) {
	defer reportFailure(t, "C19")
	s := getSUT(t)
	defer closeSUT()
	statuses := c19Statuses()
	seen := map[int]bool{}
	rapid.Check(t, func(rt *rapid.T) {
		cs := genC19(rt, statuses)
		rule, detail, nt := runC19(s, cs)
		stats.C.Eval(stats.Hash(cs), nt, func() any { return cs })
		stats.C.Class("scripts", 1)
		if cs.Manager {
			stats.C.Class("scripts-through-push-manager", 1)
		}
		for _, m := range cs.Msgs {
			for _, r := range m.Replies {
				if !seen[r.Status] {
					seen[r.Status] = true
					stats.C.Class("distinct-statuses", 1)
				}
			}
		}
		if rule == "harness" {
			stats.C.Class("harness-skip", 1)
			stats.C.Note("script skipped: %s", detail)
			return
		}
		if rule == "not-retried" || rule == "not-pushed" || rule == "not-acked" || rule == "pushed-after-success" {
			misses := 1
			for k := 0; k < 2; k++ {
				if r2, _, _ := runC19(s, cs); r2 == rule {
					misses++
				}
			}
			if misses < 3 {
				stats.C.Class("inconclusive", 1)
				stats.C.Note("inconclusive: %s reproduced %d of 3 times: %s", rule, misses, detail)
				return
			}
		}
		if rule != "" {
			failWith(rt, failure{Rule: rule, Detail: detail, Sig: map[string]any{"rule": rule}, Replay: cs})
		}
	})
	var sts []int
	for st := range seen {
		sts = append(sts, st)
	}
	sort.Ints(sts)
	stats.C.Note("%d distinct reply statuses exercised (0 = transport error)", len(sts))
}

func init() {
	replayers["push"] = func(t *testing.T, prop string, raw json.RawMessage) {
		var cs c19Case
		_ = json.Unmarshal(raw, &cs)
		s := getSUT(t)
		defer closeSUT()
		n := 0
		var lr, ld string
		for k := 0; k < 3; k++ {
			if rule, detail, _ := runC19(s, cs); rule != "" && rule != "harness" {
				n++
				lr, ld = rule, detail
				if rule == "envelope" || rule == "window" {
					break
				}
			}
		}
		if n == 3 || (n > 0 && (lr == "envelope" || lr == "window")) {
			violate(t, prop, failure{Rule: lr, Detail: ld, Sig: map[string]any{"rule": lr}})
		}
	}
}
