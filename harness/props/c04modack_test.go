package props

import (
	"context"
	"encoding/json"
	"fmt"
	"testing"
	"time"

	"cloud.google.com/go/pubsub/apiv1/pubsubpb"
	"google.golang.org/protobuf/types/known/durationpb"
	"pgregory.net/rapid"

	"verif/stats"
	"verif/sut"
)

// TestC04StreamModack: ONE StreamingPull request that carries a generated
// modify-deadline list - per outstanding message a deadline of 0, 20 or 60
// seconds, in generated order, so the handler has to split the list into runs
// of equal deadlines whatever comes first. Real clock, real RPC. Oracle, over
// an observation window far shorter than any lease involved: a message whose
// deadline was POSTPONED (or left alone) is not handed out again (no timing
// clause: a redelivery inside a lease is wrong whenever it is seen), and every
// message given deadline ZERO is handed out again as attempt 2 (bounded
// response, 3-of-3).
type c04mCase struct {
	Kind string `json:"kind"` // "streammodack"
	Secs []int  `json:"secs"` // per message, in request order; -1 = not named in the request
}

const (
	c4mT = "projects/p/topics/tm"
	c4mS = "projects/p/subscriptions/sm"
)

func runC04m(s *sut.SUT, cs c04mCase) (rule, detail string) {
	ctx, cancel := context.WithTimeout(context.Background(), 20*time.Second)
	defer cancel()
	if err := s.Reset(seed(), false); err != nil {
		return "harness", err.Error()
	}
	if _, err := s.Pub.CreateTopic(ctx, &pubsubpb.Topic{Name: c4mT}); err != nil {
		return "harness", err.Error()
	}
	long := &pubsubpb.RetryPolicy{MinimumBackoff: durationpb.New(5 * time.Minute), MaximumBackoff: durationpb.New(10 * time.Minute)}
	if _, err := s.Sub.CreateSubscription(ctx, &pubsubpb.Subscription{Name: c4mS, Topic: c4mT, RetryPolicy: long}); err != nil {
		return "harness", err.Error()
	}
	req := &pubsubpb.PublishRequest{Topic: c4mT}
	for i := range cs.Secs {
		req.Messages = append(req.Messages, &pubsubpb.PubsubMessage{Data: []byte(fmt.Sprintf(`{"i":%d}`, i))})
	}
	if _, err := s.Pub.Publish(ctx, req); err != nil {
		return "harness", err.Error()
	}
	st, err := s.Sub.StreamingPull(ctx)
	if err != nil {
		return "harness", err.Error()
	}
	defer func() {
		_ = st.CloseSend()
		cancel()
		s.WaitStreamsIdle(5 * time.Second)
	}()
	if err := st.Send(&pubsubpb.StreamingPullRequest{Subscription: c4mS, StreamAckDeadlineSeconds: 60, MaxOutstandingMessages: 1000, MaxOutstandingBytes: 1 << 24}); err != nil {
		return "harness", err.Error()
	}
	type rcv struct {
		m   *pubsubpb.ReceivedMessage
		err error
	}
	ch := make(chan rcv, 256)
	go func() {
		for {
			resp, err := st.Recv()
			if err != nil {
				ch <- rcv{err: err}
				return
			}
			for _, m := range resp.ReceivedMessages {
				ch <- rcv{m: m}
			}
		}
	}()
	first := map[string]*pubsubpb.ReceivedMessage{} // payload -> first delivery
	deadline := time.After(5 * time.Second)
	for len(first) < len(cs.Secs) {
		select {
		case r := <-ch:
			if r.err != nil {
				return "harness", "stream ended before the first deliveries: " + r.err.Error()
			}
			first[string(r.m.Message.Data)] = r.m
		case <-deadline:
			return "harness", fmt.Sprintf("only %d of %d first deliveries within 5 s", len(first), len(cs.Secs))
		}
	}
	mod := &pubsubpb.StreamingPullRequest{}
	want := map[string]int{} // payload -> deadline given
	for i, secs := range cs.Secs {
		p := fmt.Sprintf(`{"i":%d}`, i)
		want[p] = secs
		if secs >= 0 {
			mod.ModifyDeadlineAckIds = append(mod.ModifyDeadlineAckIds, first[p].AckId)
			mod.ModifyDeadlineSeconds = append(mod.ModifyDeadlineSeconds, int32(secs))
		}
	}
	if err := st.Send(mod); err != nil {
		return "harness", err.Error()
	}
	again := map[string]int{}
	window := time.After(900 * time.Millisecond)
loop:
	for {
		select {
		case r := <-ch:
			if r.err != nil {
				return "harness", "stream ended inside the observation window: " + r.err.Error()
			}
			p := string(r.m.Message.Data)
			again[p]++
			if want[p] != 0 {
				return "modack-redelivered-inside-lease", fmt.Sprintf("modify-deadline list %v in one stream request: message %s (deadline %d s; -1 = untouched, lease >= 5 min) was handed out again as attempt %d within the observation window", cs.Secs, p, want[p], r.m.DeliveryAttempt)
			}
			if again[p] == 1 && r.m.DeliveryAttempt != 2 {
				return "delivery-attempt", fmt.Sprintf("modify-deadline list %v: message %s came back as attempt %d, expected 2", cs.Secs, p, r.m.DeliveryAttempt)
			}
			// keep it from circulating: extend the new delivery
			_ = st.Send(&pubsubpb.StreamingPullRequest{ModifyDeadlineAckIds: []string{r.m.AckId}, ModifyDeadlineSeconds: []int32{60}})
		case <-window:
			break loop
		}
	}
	for p, secs := range want {
		if secs == 0 && again[p] == 0 {
			return "modack-zero-not-redelivered", fmt.Sprintf("modify-deadline list %v in one stream request: message %s was given deadline 0 and did not come back within 900 ms", cs.Secs, p)
		}
	}
	return "", ""
}

func TestC04StreamModack(t *testing.T) {
	defer reportFailure(t, "C04")
	s := getSUT(t)
	defer closeSUT()
	rapid.Check(t, func(rt *rapid.T) {
		cs := c04mCase{Kind: "streammodack"}
		n := rapid.IntRange(2, 6).Draw(rt, "n")
		for i := 0; i < n; i++ {
			cs.Secs = append(cs.Secs, rapid.SampledFrom([]int{0, 0, 20, 60, 60, -1}).Draw(rt, "secs"))
		}
		// real time: one case in 40 of the property's case count (thorough: one in 10)
		if !oneIn(rt, pick(40, 10)) {
			return
		}
		distinct := map[int]bool{}
		for _, x := range cs.Secs {
			if x >= 0 {
				distinct[x] = true
			}
		}
		rule, detail := runC04m(s, cs)
		stats.C.Eval(stats.Hash(cs), len(distinct) >= 2, func() any { return cs })
		stats.C.Class("stream-modify-deadline-lists", 1)
		if len(distinct) >= 2 {
			stats.C.Class("stream-modify-deadline-lists/mixed", 1)
		}
		if rule == "harness" {
			stats.C.Class("harness-skip", 1)
			stats.C.Note("stream modify-deadline script skipped: %s", detail)
			return
		}
		if rule != "" {
			n := 1
			if rule != "modack-redelivered-inside-lease" { // an invariant counts at once, a bounded response 3 of 3
				for k := 0; k < 2; k++ {
					if r2, _ := runC04m(s, cs); r2 == rule {
						n++
					}
				}
				if n < 3 {
					stats.C.Class("inconclusive", 1)
					stats.C.Note("inconclusive: %s reproduced %d of 3 times: %s", rule, n, detail)
					return
				}
			}
			failWith(rt, failure{Rule: rule, Detail: detail, Sig: map[string]any{"rule": rule, "stream_modify_deadline_list": true}, Replay: cs})
		}
	})
}

func init() {
	replayers["streammodack"] = func(t *testing.T, prop string, raw json.RawMessage) {
		var cs c04mCase
		if err := json.Unmarshal(raw, &cs); err != nil {
			t.Fatal(err)
		}
		s := getSUT(t)
		defer closeSUT()
		n := 0
		var lr, ld string
		for k := 0; k < 3; k++ {
			if rule, detail := runC04m(s, cs); rule != "" && rule != "harness" {
				n++
				lr, ld = rule, detail
				if rule == "modack-redelivered-inside-lease" {
					n = 3
					break
				}
			}
		}
		if n >= 3 {
			violate(t, prop, failure{Rule: lr, Detail: ld, Sig: map[string]any{"rule": lr, "stream_modify_deadline_list": true}})
		}
	}
}
