package props

import (
	"context"
	"encoding/json"
	"fmt"
	"sort"
	"strings"
	"sync"
	"testing"
	"time"

	"cloud.google.com/go/pubsub/apiv1/pubsubpb"
	"github.com/google/uuid"
	"google.golang.org/protobuf/types/known/durationpb"
	"google.golang.org/protobuf/types/known/timestamppb"
	"pgregory.net/rapid"

	"go.6river.tech/mmmbbb/actions"

	"verif/stats"
	"verif/sut"
)

// ---------------------------------------------------------------- part 1: the notifier itself

type c10WakeCase struct {
	Kind    string `json:"kind"` // "wake"
	NSubs   int    `json:"nsubs"`
	Waiters []int  `json:"waiters"` // sub index per waiter
	IDs     []int  `json:"ids"`     // sub indices passed to one wake call, in order
}

func checkWake(cs c10WakeCase) (string, string) {
	actions.WakeAllInternal()
	ids := make([]uuid.UUID, cs.NSubs)
	for i := range ids {
		ids[i] = uuid.New()
	}
	type w struct {
		sub int
		ch  actions.PublishNotifier
	}
	var ws []w
	for _, si := range cs.Waiters {
		ws = append(ws, w{si, actions.PublishAwaiter(ids[si])})
	}
	var arg []uuid.UUID
	named := map[int]bool{}
	for _, si := range cs.IDs {
		arg = append(arg, ids[si])
		named[si] = true
	}
	actions.WakePublishListeners(false, arg...)
	defer func() {
		for _, x := range ws {
			actions.CancelPublishAwaiter(ids[x.sub], x.ch)
		}
	}()
	for wi, x := range ws {
		closed := false
		select {
		case <-x.ch:
			closed = true
		default:
		}
		if named[x.sub] && !closed {
			return "waiter-not-woken", fmt.Sprintf("one notification for subscriptions %v (in that order; %d subscriptions, waiters on %v): waiter %d on subscription %d was not woken", cs.IDs, cs.NSubs, cs.Waiters, wi, x.sub)
		}
		if !named[x.sub] && closed {
			return "spurious-wake", fmt.Sprintf("notification for %v woke waiter %d on subscription %d", cs.IDs, wi, x.sub)
		}
	}
	return "", ""
}

// ---------------------------------------------------------------- parts 2+3: waiting pulls and writers

type c10Case struct {
	Kind      string `json:"kind"` // "wakeup"
	Scenario  string `json:"scenario"`
	Placement []int  `json:"placement"` // per waiter: number of transaction-boundary parks to pass before the writer runs; -1 = writer runs once the waiter is waiting
	Order     []int  `json:"order"`     // id order for multi-subscription requests
	NSubs     int    `json:"nsubs"`
	Stream    bool   `json:"stream"` // waiter 0 is a StreamingPull-style streamer instead of a Pull
	// DLTarget: 0 = the dead-letter topic has a subscription, 1 = it has none, 2 = it is deleted
	DLTarget int `json:"dl_target"`
}

var c10Scenarios = []string{"publish", "modack-zero-spanning", "ack-ordered-predecessor", "nack-deadletters-predecessor", "deadletter-forward-into-topic", "seek-back", "sweep-forward-into-topic", "seek-time-acks-ordered-predecessor", "seek-snapshot-acks-ordered-predecessor"}

const (
	c10T, c10D = "projects/p/topics/t", "projects/p/topics/d"
)

func c10Sub(i int) string { return fmt.Sprintf("projects/p/subscriptions/s%d", i) }

type waiterResult struct {
	ids []string // message payload markers received
	err error
	at  time.Time
}

// scriptConn is a StreamConnection that records sends.
type scriptConn struct {
	mu     sync.Mutex
	sent   []*actions.SubscriptionMessageDelivery
	sentAt []time.Time
	recv   chan *actions.MessageStreamRequest
	closed chan struct{}
	once   sync.Once
}

func newScriptConn() *scriptConn {
	return &scriptConn{recv: make(chan *actions.MessageStreamRequest, 16), closed: make(chan struct{})}
}
func (c *scriptConn) Close() error { c.once.Do(func() { close(c.closed) }); return nil }
func (c *scriptConn) Receive(ctx context.Context) (*actions.MessageStreamRequest, error) {
	select {
	case m := <-c.recv:
		return m, nil
	case <-c.closed:
		return nil, context.Canceled
	case <-ctx.Done():
		return nil, ctx.Err()
	}
}
func (c *scriptConn) Send(ctx context.Context, d *actions.SubscriptionMessageDelivery) error {
	c.mu.Lock()
	c.sent = append(c.sent, d)
	c.sentAt = append(c.sentAt, time.Now())
	c.mu.Unlock()
	return nil
}
func (c *scriptConn) sentPayloads() []string {
	c.mu.Lock()
	defer c.mu.Unlock()
	var out []string
	for _, d := range c.sent {
		out = append(out, string(d.Payload))
	}
	return out
}

// runC10 executes one schedule. It returns (rule, detail) on a miss.
func runC10(s *sut.SUT, cs c10Case) (rule, detail string, nontrivial bool) {
	ctx := context.Background()
	if err := s.Reset(seed(), false); err != nil {
		return "harness", err.Error(), false
	}
	defer sut.TheGate.SetScheduler(nil)
	must := func(err error) {
		if err != nil {
			panic(fmt.Errorf("c10 setup: %w", err))
		}
	}
	defer func() {
		if r := recover(); r != nil {
			rule, detail = "harness", fmt.Sprint(r)
		}
	}()
	_, err := s.Pub.CreateTopic(ctx, &pubsubpb.Topic{Name: c10T})
	must(err)
	_, err = s.Pub.CreateTopic(ctx, &pubsubpb.Topic{Name: c10D})
	must(err)
	long := &pubsubpb.RetryPolicy{MinimumBackoff: durationpb.New(10 * time.Minute), MaximumBackoff: durationpb.New(10 * time.Minute)}
	pull := func(sub string, max int32) []*pubsubpb.ReceivedMessage {
		r, err := s.Sub.Pull(ctx, &pubsubpb.PullRequest{Subscription: sub, MaxMessages: max, ReturnImmediately: true})
		must(err)
		return r.ReceivedMessages
	}
	publish := func(topic string, datas ...string) {
		req := &pubsubpb.PublishRequest{Topic: topic}
		for _, d := range datas {
			key := ""
			if strings.Contains(d, "key") {
				key = "k"
			}
			req.Messages = append(req.Messages, &pubsubpb.PubsubMessage{Data: []byte(d), OrderingKey: key})
		}
		_, err := s.Pub.Publish(ctx, req)
		must(err)
	}

	// waiters: subscription name + what they must receive
	type waiterSpec struct {
		sub  string
		want string
	}
	var waiters []waiterSpec
	var writer func() error

	switch cs.Scenario {
	case "publish":
		for i := 0; i < cs.NSubs; i++ {
			_, err := s.Sub.CreateSubscription(ctx, &pubsubpb.Subscription{Name: c10Sub(i), Topic: c10T, RetryPolicy: long})
			must(err)
		}
		for i := 0; i < len(cs.Placement) && i < cs.NSubs; i++ {
			waiters = append(waiters, waiterSpec{c10Sub(cs.NSubs - 1 - i), `{"m":"new"}`})
		}
		writer = func() error {
			_, err := s.Pub.Publish(ctx, &pubsubpb.PublishRequest{Topic: c10T, Messages: []*pubsubpb.PubsubMessage{{Data: []byte(`{"m":"new"}`)}}})
			return err
		}
	case "modack-zero-spanning":
		var ackIDs []string
		for i := 0; i < cs.NSubs; i++ {
			_, err := s.Sub.CreateSubscription(ctx, &pubsubpb.Subscription{Name: c10Sub(i), Topic: c10T, RetryPolicy: long})
			must(err)
		}
		publish(c10T, `{"m":"leased"}`)
		for i := 0; i < cs.NSubs; i++ {
			rm := pull(c10Sub(i), 10)
			if len(rm) != 1 {
				panic("setup: expected one delivery")
			}
			ackIDs = append(ackIDs, rm[0].AckId)
		}
		// waiters on the LAST subscriptions; the request names ids of all subscriptions in cs.Order
		for i := 0; i < len(cs.Placement) && i < cs.NSubs; i++ {
			waiters = append(waiters, waiterSpec{c10Sub(cs.NSubs - 1 - i), `{"m":"leased"}`})
		}
		var ordered []string
		for _, i := range cs.Order {
			if i < len(ackIDs) {
				ordered = append(ordered, ackIDs[i])
			}
		}
		writer = func() error {
			_, err := s.Sub.ModifyAckDeadline(ctx, &pubsubpb.ModifyAckDeadlineRequest{Subscription: c10Sub(0), AckIds: ordered, AckDeadlineSeconds: 0})
			return err
		}
		nontrivial = cs.NSubs >= 2
	case "ack-ordered-predecessor", "nack-deadletters-predecessor", "deadletter-forward-into-topic", "sweep-forward-into-topic":
		sb := &pubsubpb.Subscription{Name: c10Sub(0), Topic: c10T, EnableMessageOrdering: true, RetryPolicy: long}
		if cs.Scenario != "ack-ordered-predecessor" {
			sb.DeadLetterPolicy = &pubsubpb.DeadLetterPolicy{DeadLetterTopic: c10D, MaxDeliveryAttempts: 1}
		}
		if cs.Scenario == "sweep-forward-into-topic" {
			sb.RetryPolicy = &pubsubpb.RetryPolicy{MinimumBackoff: durationpb.New(50 * time.Millisecond), MaximumBackoff: durationpb.New(50 * time.Millisecond)}
		}
		_, err := s.Sub.CreateSubscription(ctx, sb)
		must(err)
		noTarget := cs.DLTarget != 0 && (cs.Scenario == "nack-deadletters-predecessor" || cs.Scenario == "ack-ordered-predecessor")
		if !noTarget {
			_, err = s.Sub.CreateSubscription(ctx, &pubsubpb.Subscription{Name: c10Sub(1), Topic: c10D, RetryPolicy: long})
			must(err)
		} else if cs.DLTarget == 2 {
			_, err = s.Pub.DeleteTopic(ctx, &pubsubpb.DeleteTopicRequest{Topic: c10D})
			must(err)
		}
		publish(c10T, `{"m":"first","key":1}`, `{"m":"second","key":1}`)
		rm := pull(c10Sub(0), 10)
		if len(rm) != 1 {
			panic(fmt.Sprintf("setup: expected only the first ordered message, got %d", len(rm)))
		}
		first := rm[0].AckId
		switch cs.Scenario {
		case "ack-ordered-predecessor":
			waiters = append(waiters, waiterSpec{c10Sub(0), `{"m":"second","key":1}`})
			writer = func() error {
				_, err := s.Sub.Acknowledge(ctx, &pubsubpb.AcknowledgeRequest{Subscription: c10Sub(0), AckIds: []string{first}})
				return err
			}
		case "nack-deadletters-predecessor":
			waiters = append(waiters, waiterSpec{c10Sub(0), `{"m":"second","key":1}`})
			writer = func() error { return actions.VerifAcksNacks(ctx, s.Client, nil, uu(first)) }
		case "deadletter-forward-into-topic":
			waiters = append(waiters, waiterSpec{c10Sub(1), `{"m":"first","key":1}`})
			writer = func() error { return actions.VerifAcksNacks(ctx, s.Client, nil, uu(first)) }
		case "sweep-forward-into-topic":
			time.Sleep(80 * time.Millisecond) // the 50 ms lease lapses
			waiters = append(waiters, waiterSpec{c10Sub(1), `{"m":"first","key":1}`})
			writer = func() error {
				a := actions.NewDeadLetterDeliveries(actions.DeadLetterDeliveriesParams{MaxDeliveries: 100})
				return s.Client.DoCtxTx(ctx, nil, a.Execute)
			}
		}
		if len(cs.Placement) > 1 {
			cs.Placement = cs.Placement[:1]
		}
	case "seek-back":
		_, err := s.Sub.CreateSubscription(ctx, &pubsubpb.Subscription{Name: c10Sub(0), Topic: c10T, RetryPolicy: long})
		must(err)
		before := time.Now().Add(-time.Hour)
		publish(c10T, `{"m":"acked"}`)
		rm := pull(c10Sub(0), 10)
		_, err = s.Sub.Acknowledge(ctx, &pubsubpb.AcknowledgeRequest{Subscription: c10Sub(0), AckIds: []string{rm[0].AckId}})
		must(err)
		waiters = append(waiters, waiterSpec{c10Sub(0), `{"m":"acked"}`})
		writer = func() error {
			_, err := s.Sub.Seek(ctx, &pubsubpb.SeekRequest{Subscription: c10Sub(0), Target: &pubsubpb.SeekRequest_Time{Time: timestamppb.New(before)}})
			return err
		}
		if len(cs.Placement) > 1 {
			cs.Placement = cs.Placement[:1]
		}
	case "seek-time-acks-ordered-predecessor", "seek-snapshot-acks-ordered-predecessor":
		// a seek that only ACKNOWLEDGES (revives nothing) completes the leased
		// predecessor of a same-key message on an ordered subscription: the
		// successor becomes deliverable by that commit
		_, err := s.Sub.CreateSubscription(ctx, &pubsubpb.Subscription{Name: c10Sub(0), Topic: c10T, EnableMessageOrdering: true, RetryPolicy: long})
		must(err)
		_, err = s.Sub.CreateSubscription(ctx, &pubsubpb.Subscription{Name: c10Sub(1), Topic: c10T, RetryPolicy: long})
		must(err)
		publish(c10T, `{"m":"first","key":1}`)
		time.Sleep(5 * time.Millisecond)
		mid := time.Now()
		time.Sleep(5 * time.Millisecond)
		publish(c10T, `{"m":"second","key":1}`)
		rm := pull(c10Sub(0), 10)
		if len(rm) != 1 {
			panic(fmt.Sprintf("setup: expected only the first ordered message, got %d", len(rm)))
		}
		waiters = append(waiters, waiterSpec{c10Sub(0), `{"m":"second","key":1}`})
		if cs.Scenario == "seek-time-acks-ordered-predecessor" {
			writer = func() error {
				_, err := s.Sub.Seek(ctx, &pubsubpb.SeekRequest{Subscription: c10Sub(0), Target: &pubsubpb.SeekRequest_Time{Time: timestamppb.New(mid)}})
				return err
			}
		} else {
			// the sibling acknowledges the first message only and is snapshotted
			sr := pull(c10Sub(1), 10)
			for _, m := range sr {
				if string(m.Message.Data) == `{"m":"first","key":1}` {
					_, err = s.Sub.Acknowledge(ctx, &pubsubpb.AcknowledgeRequest{Subscription: c10Sub(1), AckIds: []string{m.AckId}})
					must(err)
				}
			}
			_, err = s.Sub.CreateSnapshot(ctx, &pubsubpb.CreateSnapshotRequest{Name: "projects/p/snapshots/c10", Subscription: c10Sub(1)})
			must(err)
			writer = func() error {
				_, err := s.Sub.Seek(ctx, &pubsubpb.SeekRequest{Subscription: c10Sub(0), Target: &pubsubpb.SeekRequest_Snapshot{Snapshot: "projects/p/snapshots/c10"}})
				return err
			}
		}
		if len(cs.Placement) > 1 {
			cs.Placement = cs.Placement[:1]
		}
	default:
		return "harness", "unknown scenario " + cs.Scenario, false
	}
	if len(waiters) == 0 {
		return "", "", false
	}

	// start the waiters under the gate scheduler
	actors := make([]string, len(waiters))
	for i := range waiters {
		actors[i] = fmt.Sprintf("w%d", i)
	}
	sched := sut.NewScheduler(actors...)
	sut.TheGate.SetScheduler(sched)
	results := make([]chan waiterResult, len(waiters))
	waiting := make([]chan struct{}, len(waiters))
	cancels := make([]context.CancelFunc, len(waiters))
	var conns []*scriptConn
	for i, w := range waiters {
		results[i] = make(chan waiterResult, 1)
		waiting[i] = make(chan struct{})
		wctx, cancel := context.WithCancel(sut.WithActor(ctx, actors[i]))
		cancels[i] = cancel
		if cs.Stream && i == 0 {
			conn := newScriptConn()
			conns = append(conns, conn)
			conn.recv <- &actions.MessageStreamRequest{FlowControl: &actions.FlowControl{MaxMessages: 10, MaxBytes: 1 << 20}}
			go func(i int, w waiterSpec) {
				ms := &actions.MessageStreamer{Client: s.Client, SubscriptionName: w.sub, AutomaticNack: true}
				err := ms.Go(wctx, conn)
				results[i] <- waiterResult{err: err, at: time.Now()}
			}(i, w)
			close(waiting[i])
			continue
		}
		go func(i int, w waiterSpec) {
			a := actions.NewGetSubscriptionMessages(actions.GetSubscriptionMessagesParams{Name: w.sub, MaxMessages: 10, MaxBytes: 1 << 20, MaxWait: 40 * time.Second, Waiting: waiting[i]})
			err := a.ExecuteClient(wctx, s.Client)
			res := waiterResult{err: err, at: time.Now()}
			if r, ok := a.Results(); ok {
				for _, d := range r.Deliveries {
					res.ids = append(res.ids, string(d.Payload))
				}
			}
			results[i] <- res
		}(i, w)
	}
	defer func() {
		sched.ReleaseAll()
		for _, c := range cancels {
			c()
		}
		for _, c := range conns {
			c.Close()
		}
	}()

	// bring every waiter to its placement
	inWindow := false
	for i := range waiters {
		if cs.Stream && i == 0 {
			// the streamer has several goroutines: no gating, just let it reach its wait
			sched.Unregister(actors[i])
			time.Sleep(30 * time.Millisecond)
			continue
		}
		p := cs.Placement[i]
		if p < 0 {
			sched.Unregister(actors[i])
			select {
			case <-waiting[i]:
			case <-time.After(10 * time.Second):
				return "harness", fmt.Sprintf("waiter %d never started waiting", i), false
			}
			continue
		}
		isParked := func() bool {
			for _, n := range sched.Parked() {
				if strings.HasPrefix(n, actors[i]+"/") {
					return true
				}
			}
			return false
		}
		waitParked := func(d time.Duration) bool {
			deadline := time.Now().Add(d)
			for time.Now().Before(deadline) {
				if isParked() {
					return true
				}
				select {
				case <-waiting[i]:
					return false // went past every boundary and is waiting
				default:
					time.Sleep(200 * time.Microsecond)
				}
			}
			return false
		}
		// parks of a waiting pull, in order: before BEGIN of its first (verify)
		// transaction, after its COMMIT, before BEGIN of the query transaction,
		// after the COMMIT of the (empty) query - the check-to-wait window
		for k := 0; k < p; k++ {
			if !waitParked(5 * time.Second) {
				return "harness", fmt.Sprintf("waiter %d did not reach boundary %d", i, k), false
			}
			sched.ReleaseActor(actors[i])
		}
		if !waitParked(5 * time.Second) {
			return "harness", fmt.Sprintf("waiter %d did not reach boundary %d", i, p), false
		}
		if p == 3 {
			inWindow = true // parked after the commit of the (empty) query transaction, before it waits
		}
	}
	nontrivial = nontrivial || inWindow

	// the writer commits
	if err := writer(); err != nil {
		return "harness", fmt.Sprintf("writer failed: %v", err), nontrivial
	}
	committed := time.Now()
	sched.ReleaseAll()

	// every waiter must now return the message promptly
	const bound = 2 * time.Second
	for i, w := range waiters {
		if cs.Stream && i == 0 {
			deadline := committed.Add(bound)
			ok := false
			for time.Now().Before(deadline) {
				for _, p := range conns[0].sentPayloads() {
					if p == w.want {
						ok = true
					}
				}
				if ok {
					break
				}
				time.Sleep(2 * time.Millisecond)
			}
			if !ok {
				return "lost-wakeup", fmt.Sprintf("scenario %s: the streaming waiter on %s did not receive %s within %v of the writer's commit (sent so far: %v)", cs.Scenario, w.sub, w.want, bound, conns[0].sentPayloads()), nontrivial
			}
			continue
		}
		select {
		case res := <-results[i]:
			if res.err != nil {
				return "waiter-error", fmt.Sprintf("scenario %s: waiter %d on %s failed: %v", cs.Scenario, i, w.sub, res.err), nontrivial
			}
			found := false
			for _, id := range res.ids {
				if id == w.want {
					found = true
				}
			}
			if !found {
				return "lost-wakeup", fmt.Sprintf("scenario %s placement %v order %v: waiter %d on %s returned %v after %v without the message %s that the writer made deliverable", cs.Scenario, cs.Placement, cs.Order, i, w.sub, res.ids, res.at.Sub(committed), w.want), nontrivial
			}
		case <-time.After(time.Until(committed.Add(bound))):
			return "lost-wakeup", fmt.Sprintf("scenario %s placement %v order %v (%d subscriptions): waiter %d on %s was still waiting %v after the writer committed (its own timeout is 40 s)", cs.Scenario, cs.Placement, cs.Order, cs.NSubs, i, w.sub, bound), nontrivial
		}
	}
	return "", "", nontrivial
}

func genC10(rt *rapid.T) c10Case {
	cs := c10Case{Kind: "wakeup", Scenario: rapid.SampledFrom(c10Scenarios).Draw(rt, "scenario")}
	cs.NSubs = rapid.IntRange(1, 3).Draw(rt, "nsubs")
	nw := rapid.IntRange(1, 2).Draw(rt, "nwaiters")
	for i := 0; i < nw; i++ {
		// 0: before its first transaction; 1: between its two transactions; 2: before the query (awaiter registered);
		// 3: after the commit of the empty query, before it waits; -1: already waiting
		cs.Placement = append(cs.Placement, rapid.SampledFrom([]int{-1, -1, 0, 1, 2, 3, 3, 3}).Draw(rt, "placement"))
	}
	cs.Order = rapid.Permutation([]int{0, 1, 2}[:cs.NSubs]).Draw(rt, "order")
	cs.Stream = rapid.IntRange(0, 5).Draw(rt, "stream") == 0
	cs.DLTarget = rapid.IntRange(0, 2).Draw(rt, "dltarget")
	return cs
}

func TestC10(t *testing.T) {
	defer reportFailure(t, "C10")
	t.Run("notifier", func(t *testing.T) {
		rapid.Check(t, func(rt *rapid.T) {
			n := rapid.IntRange(1, 4).Draw(rt, "nsubs")
			cs := c10WakeCase{Kind: "wake", NSubs: n}
			nw := rapid.IntRange(0, 5).Draw(rt, "nwaiters")
			for i := 0; i < nw; i++ {
				cs.Waiters = append(cs.Waiters, rapid.IntRange(0, n-1).Draw(rt, "wsub"))
			}
			ni := rapid.IntRange(1, 5).Draw(rt, "nids")
			for i := 0; i < ni; i++ {
				cs.IDs = append(cs.IDs, rapid.IntRange(0, n-1).Draw(rt, "id"))
			}
			// non-trivial: an id without waiters precedes an id with a waiter
			nt := false
			has := map[int]bool{}
			for _, w := range cs.Waiters {
				has[w] = true
			}
			seenEmpty := false
			for _, id := range cs.IDs {
				if !has[id] {
					seenEmpty = true
				} else if seenEmpty {
					nt = true
				}
			}
			stats.C.Eval("wake:"+stats.Hash(cs), nt, func() any { return cs })
			stats.C.Class("notifier-cases", 1)
			if rule, detail := checkWake(cs); rule != "" {
				failWith(rt, failure{Rule: rule, Detail: detail, Sig: map[string]any{"layer": "notifier"}, Replay: cs})
			}
		})
	})
	t.Run("schedules", func(t *testing.T) {
		s := getSUT(t)
		defer closeSUT()
		rapid.Check(t, func(rt *rapid.T) {
			cs := genC10(rt)
			rule, detail, nt := runC10(s, cs)
			stats.C.Eval(stats.Hash(cs), nt, func() any { return cs })
			stats.C.Class("scenario/"+cs.Scenario, 1)
			if rule == "harness" {
				stats.C.Class("harness-skip", 1)
				stats.C.Note("schedule skipped: %s", detail)
				return
			}
			if rule == "lost-wakeup" {
				// a miss must reproduce from the same schedule: 3 of 3
				misses := 1
				for k := 0; k < 2; k++ {
					if r2, _, _ := runC10(s, cs); r2 == "lost-wakeup" {
						misses++
					}
				}
				if misses < 3 {
					stats.C.Class("inconclusive-miss", 1)
					stats.C.Note("inconclusive: schedule %v missed %d of 3 runs: %s", cs, misses, detail)
					return
				}
			}
			if rule != "" {
				failWith(rt, failure{Rule: rule, Detail: detail, Sig: map[string]any{"scenario": cs.Scenario}, Replay: cs})
			}
		})
	})
}

func init() {
	replayers["wake"] = func(t *testing.T, prop string, raw json.RawMessage) {
		var cs c10WakeCase
		_ = json.Unmarshal(raw, &cs)
		if rule, detail := checkWake(cs); rule != "" {
			violate(t, prop, failure{Rule: rule, Detail: detail, Sig: map[string]any{"layer": "notifier"}})
		}
	}
	replayers["wakeup"] = func(t *testing.T, prop string, raw json.RawMessage) {
		var cs c10Case
		_ = json.Unmarshal(raw, &cs)
		s := getSUT(t)
		defer closeSUT()
		misses := 0
		var last string
		for k := 0; k < 3; k++ {
			if rule, detail, _ := runC10(s, cs); rule != "" && rule != "harness" {
				misses++
				last = rule + ": " + detail
			}
		}
		if misses == 3 {
			violate(t, prop, failure{Rule: "lost-wakeup", Detail: last, Sig: map[string]any{"scenario": cs.Scenario}})
		}
	}
}

var _ = sort.Strings
