package props

import (
	"context"
	"encoding/json"
	"fmt"
	"testing"
	"time"

	"cloud.google.com/go/pubsub/apiv1/pubsubpb"

	"verif/stats"
)

// C10 under real concurrency (no schedule control): a blocking Pull and a
// Publish are issued at (almost) the same moment, in either order and a few
// hundred microseconds apart, many times over. Wherever the publish lands
// relative to the pull's own steps, the pull has to come back with the message
// promptly - a pull that is still waiting two seconds later, while the message
// sits deliverable in the subscription, has missed its wake-up.
func TestC10Stress(t *testing.T) {
	defer reportFailure(t, "C10")
	s := getSUT(t)
	defer closeSUT()
	ctx := context.Background()
	if err := s.Reset(seed(), false); err != nil {
		t.Fatal(err)
	}
	const topic, sub = "projects/p/topics/tw10", "projects/p/subscriptions/sw10"
	if _, err := s.Pub.CreateTopic(ctx, &pubsubpb.Topic{Name: topic}); err != nil {
		t.Fatal(err)
	}
	if _, err := s.Sub.CreateSubscription(ctx, &pubsubpb.Subscription{Name: sub, Topic: topic}); err != nil {
		t.Fatal(err)
	}
	n := pick(150, 600)
	offsets := []time.Duration{0, 50 * time.Microsecond, 200 * time.Microsecond, 500 * time.Microsecond, time.Millisecond, 3 * time.Millisecond}
	for i := 0; i < n; i++ {
		off := offsets[i%len(offsets)]
		pullFirst := (i/len(offsets))%2 == 0
		type res struct {
			n   int
			err error
			ack []string
		}
		done := make(chan res, 1)
		pctx, cancel := context.WithTimeout(ctx, 5*time.Second)
		pull := func() {
			r, err := s.Sub.Pull(pctx, &pubsubpb.PullRequest{Subscription: sub, MaxMessages: 10})
			rs := res{err: err}
			for _, rm := range r.GetReceivedMessages() {
				rs.n++
				rs.ack = append(rs.ack, rm.AckId)
			}
			done <- rs
		}
		publish := func() error {
			_, err := s.Pub.Publish(ctx, &pubsubpb.PublishRequest{Topic: topic, Messages: []*pubsubpb.PubsubMessage{{Data: []byte(fmt.Sprintf(`{"i":%d}`, i))}}})
			return err
		}
		var perr error
		start := time.Now()
		if pullFirst {
			go pull()
			time.Sleep(off)
			perr = publish()
		} else {
			pubDone := make(chan error, 1)
			go func() { pubDone <- publish() }()
			time.Sleep(off)
			go pull()
			perr = <-pubDone
		}
		published := time.Now()
		if perr != nil {
			cancel()
			<-done
			stats.C.Class("stress/publish-failed", 1)
			continue
		}
		var rs res
		select {
		case rs = <-done:
		case <-time.After(2 * time.Second):
			// slow or lost? a woken pull comes back on its own; give it three
			// times as long again, then look whether the message is there for the
			// taking (without taking it)
			select {
			case rs = <-done:
				stats.C.Class("stress/slow-but-not-lost", 1)
			case <-time.After(1500 * time.Millisecond):
				var open int
				_ = s.Raw.QueryRow("select count(*) from deliveries where completed_at is null and attempts = 0").Scan(&open)
				cancel()
				rs = <-done
				if open > 0 && rs.n == 0 {
					violate(t, "C10", failure{Rule: "lost-wakeup", Detail: fmt.Sprintf("iteration %d: a blocking Pull issued %v %s a Publish was still waiting %v after the publish had returned, while the message sat deliverable (never attempted) in the subscription", i, off, map[bool]string{true: "before", false: "after"}[pullFirst], time.Since(published).Round(time.Millisecond)),
						Sig: map[string]any{"rule": "lost-wakeup", "stress": true}, Replay: map[string]any{"kind": "wakestress", "iteration": i}})
					return
				}
				stats.C.Class("stress/slow-but-not-lost", 1)
			}
		}
		cancel()
		stats.C.EvalN(1)
		stats.C.Class("stress/pull-publish-pairs", 1)
		if rs.n > 0 {
			stats.C.Class("stress/woken-within-2s", 1)
		}
		_ = start
		if len(rs.ack) > 0 {
			for try := 0; try < 20; try++ {
				if _, err := s.Sub.Acknowledge(ctx, &pubsubpb.AcknowledgeRequest{Subscription: sub, AckIds: rs.ack}); err == nil {
					break
				}
			}
		} else {
			// the pull ended without the message (error / cancelled): drain it so that the next iteration starts empty
			if r, err := s.Sub.Pull(ctx, &pubsubpb.PullRequest{Subscription: sub, MaxMessages: 10, ReturnImmediately: true}); err == nil {
				var ids []string
				for _, rm := range r.ReceivedMessages {
					ids = append(ids, rm.AckId)
				}
				if len(ids) > 0 {
					_, _ = s.Sub.Acknowledge(ctx, &pubsubpb.AcknowledgeRequest{Subscription: sub, AckIds: ids})
				}
			}
		}
	}
}

func init() {
	replayers["wakestress"] = func(t *testing.T, prop string, raw json.RawMessage) { TestC10Stress(t) }
}
