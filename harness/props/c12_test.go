package props

import (
	"context"
	"encoding/json"
	"fmt"
	"sort"
	"strings"
	"sync"
	"testing"
	"time"

	"cloud.google.com/go/pubsub/apiv1/pubsubpb"
	"google.golang.org/grpc/codes"
	"google.golang.org/grpc/status"
	"google.golang.org/protobuf/types/known/durationpb"
	"pgregory.net/rapid"

	"verif/stats"
	"verif/sut"
)

// projects whose names differ by case, are prefixes of one another, or
// contain LIKE wildcards / the LIKE escape character
var c12Projects = []string{"p", "P", "p_", "p%", "pq", "p.q", `p\`, "é"}
var c12Shorts = []string{"a", "b", "A", "a%", "a_", "ab"}

type c12Op struct {
	K    string `json:"k"`
	Kind string `json:"kind,omitempty"` // topic | sub | snap
	Proj string `json:"proj,omitempty"`
	Name string `json:"name,omitempty"`
	Ref  string `json:"ref,omitempty"` // topic of a sub / sub of a snapshot (full name)
	Page int    `json:"page,omitempty"`
	N    int    `json:"n,omitempty"`
	Cfg  int    `json:"cfg,omitempty"`
}

type c12Case struct {
	Kind string  `json:"kind"` // "names"
	Ops  []c12Op `json:"ops"`
}

func c12Full(kind, proj, name string) string {
	seg := map[string]string{"topic": "topics", "sub": "subscriptions", "snap": "snapshots"}[kind]
	return "projects/" + proj + "/" + seg + "/" + name
}

type c12Sub struct {
	topic string // full name of the topic generation's name
	tgen  int
	cfg   int
	gen   int
}

type c12Model struct {
	topics map[string]int     // live topic full name -> generation
	subs   map[string]*c12Sub // live
	snaps  map[string]int     // snapshot full name -> topic generation
	gen    int
}

func newC12Model() *c12Model {
	return &c12Model{topics: map[string]int{}, subs: map[string]*c12Sub{}, snaps: map[string]int{}}
}

func c12SubPB(name, topic string, cfg int) *pubsubpb.Subscription {
	p := &pubsubpb.Subscription{Name: name, Topic: topic}
	switch cfg % 4 {
	case 1:
		p.Filter = `attributes:x`
		p.Labels = map[string]string{"gen": "1"}
	case 2:
		p.EnableMessageOrdering = true
		p.MessageRetentionDuration = durationpb.New(time.Hour)
	case 3:
		p.RetryPolicy = &pubsubpb.RetryPolicy{MinimumBackoff: durationpb.New(2 * time.Second)}
		p.ExpirationPolicy = &pubsubpb.ExpirationPolicy{Ttl: durationpb.New(48 * time.Hour)}
	}
	return p
}

func c12CfgMatches(got *pubsubpb.Subscription, cfg int) string {
	want := c12SubPB(got.Name, got.Topic, cfg)
	if got.Filter != want.Filter {
		return fmt.Sprintf("filter %q, want %q", got.Filter, want.Filter)
	}
	if got.EnableMessageOrdering != want.EnableMessageOrdering {
		return fmt.Sprintf("ordering %v, want %v", got.EnableMessageOrdering, want.EnableMessageOrdering)
	}
	if (got.RetryPolicy != nil) != (want.RetryPolicy != nil) {
		return fmt.Sprintf("retry policy %v, want %v", got.RetryPolicy, want.RetryPolicy)
	}
	if len(got.Labels) != len(want.Labels) {
		return fmt.Sprintf("labels %v, want %v", got.Labels, want.Labels)
	}
	wr := 7 * 24 * time.Hour
	if want.MessageRetentionDuration != nil {
		wr = want.MessageRetentionDuration.AsDuration()
	}
	if got.MessageRetentionDuration.AsDuration() != wr {
		return fmt.Sprintf("retention %v, want %v", got.MessageRetentionDuration.AsDuration(), wr)
	}
	return ""
}

type c12Runner struct {
	s   *sut.SUT
	m   *c12Model
	ctx context.Context
	// per-step classification for evidence
	classes map[string]int
}

func listAll[T any](fetch func(token string) ([]T, string, error)) ([]T, int, error) {
	var all []T
	token, pages := "", 0
	for {
		items, next, err := fetch(token)
		if err != nil {
			return nil, pages, err
		}
		pages++
		all = append(all, items...)
		if next == "" || pages > 200 {
			return all, pages, nil
		}
		token = next
	}
}

func setDiff(got []string, want map[string]bool) (extra, missing, dups []string) {
	seen := map[string]int{}
	for _, g := range got {
		seen[g]++
	}
	for g, n := range seen {
		if !want[g] {
			extra = append(extra, g)
		}
		if n > 1 {
			dups = append(dups, g)
		}
	}
	for w := range want {
		if seen[w] == 0 {
			missing = append(missing, w)
		}
	}
	sort.Strings(extra)
	sort.Strings(missing)
	sort.Strings(dups)
	return
}

func (r *c12Runner) expect(op c12Op, want codes.Code, err error) (string, string) {
	if got := status.Code(err); got != want {
		return "status/" + op.K + "-" + op.Kind, fmt.Sprintf("%s %s %s: status %s (%v), expected %s", op.K, op.Kind, c12Full(op.Kind, op.Proj, op.Name), got, err, want)
	}
	return "", ""
}

// step executes one op; returns a rule+detail on violation.
func (r *c12Runner) step(op c12Op) (string, string) {
	s, m, ctx := r.s, r.m, r.ctx
	full := c12Full(op.Kind, op.Proj, op.Name)
	switch op.K {
	case "create":
		switch op.Kind {
		case "topic":
			_, err := s.Pub.CreateTopic(ctx, &pubsubpb.Topic{Name: full})
			want := codes.OK
			if _, ok := m.topics[full]; ok {
				want = codes.AlreadyExists
			}
			if ru, de := r.expect(op, want, err); ru != "" {
				return ru, de
			}
			if want == codes.OK {
				m.gen++
				m.topics[full] = m.gen
			}
		case "sub":
			_, err := s.Sub.CreateSubscription(ctx, c12SubPB(full, op.Ref, op.Cfg))
			want := codes.OK
			if _, ok := m.subs[full]; ok {
				want = codes.AlreadyExists
			} else if _, ok := m.topics[op.Ref]; !ok {
				want = codes.NotFound
			}
			if ru, de := r.expect(op, want, err); ru != "" {
				return ru, de
			}
			if want == codes.OK {
				m.gen++
				m.subs[full] = &c12Sub{topic: op.Ref, tgen: m.topics[op.Ref], cfg: op.Cfg, gen: m.gen}
			}
		case "snap":
			_, err := s.Sub.CreateSnapshot(ctx, &pubsubpb.CreateSnapshotRequest{Name: full, Subscription: op.Ref})
			want := codes.OK
			if _, ok := m.snaps[full]; ok {
				want = codes.AlreadyExists
			} else if _, ok := m.subs[op.Ref]; !ok {
				want = codes.NotFound
			}
			if ru, de := r.expect(op, want, err); ru != "" {
				return ru, de
			}
			if want == codes.OK {
				m.snaps[full] = m.subs[op.Ref].tgen
			}
		}
	case "delete":
		switch op.Kind {
		case "topic":
			_, err := s.Pub.DeleteTopic(ctx, &pubsubpb.DeleteTopicRequest{Topic: full})
			want := codes.OK
			g, ok := m.topics[full]
			if !ok {
				want = codes.NotFound
			}
			if ru, de := r.expect(op, want, err); ru != "" {
				return ru, de
			}
			if ok {
				delete(m.topics, full)
				for n, tg := range m.snaps { // snapshots of a deleted topic go with it
					if tg == g {
						delete(m.snaps, n)
					}
				}
			}
		case "sub":
			_, err := s.Sub.DeleteSubscription(ctx, &pubsubpb.DeleteSubscriptionRequest{Subscription: full})
			want := codes.OK
			if _, ok := m.subs[full]; !ok {
				want = codes.NotFound
			}
			if ru, de := r.expect(op, want, err); ru != "" {
				return ru, de
			}
			delete(m.subs, full)
		case "snap":
			_, err := s.Sub.DeleteSnapshot(ctx, &pubsubpb.DeleteSnapshotRequest{Snapshot: full})
			want := codes.OK
			if _, ok := m.snaps[full]; !ok {
				want = codes.NotFound
			}
			if ru, de := r.expect(op, want, err); ru != "" {
				return ru, de
			}
			delete(m.snaps, full)
		}
	case "get":
		var err error
		live := false
		switch op.Kind {
		case "topic":
			_, err = s.Pub.GetTopic(ctx, &pubsubpb.GetTopicRequest{Topic: full})
			_, live = m.topics[full]
		case "sub":
			var got *pubsubpb.Subscription
			got, err = s.Sub.GetSubscription(ctx, &pubsubpb.GetSubscriptionRequest{Subscription: full})
			var ms *c12Sub
			ms, live = m.subs[full]
			if live && err == nil {
				if d := c12CfgMatches(got, ms.cfg); d != "" {
					return "get-settings", fmt.Sprintf("GetSubscription(%s) shows %s (settings of the current incarnation are cfg#%d)", full, d, ms.cfg%4)
				}
				wantTopic := ms.topic
				if g, ok := m.topics[ms.topic]; !ok || g != ms.tgen {
					wantTopic = "_deleted-topic_"
				}
				if got.Topic != wantTopic {
					return "get-settings", fmt.Sprintf("GetSubscription(%s) shows topic %q, expected %q", full, got.Topic, wantTopic)
				}
			}
		case "snap":
			_, err = s.Sub.GetSnapshot(ctx, &pubsubpb.GetSnapshotRequest{Snapshot: full})
			_, live = m.snaps[full]
		}
		want := codes.NotFound
		if live {
			want = codes.OK
		}
		return r.expect(op, want, err)
	case "list":
		project := "projects/" + op.Proj
		want := map[string]bool{}
		var got []string
		var pages int
		var err error
		prefix := c12Full(op.Kind, op.Proj, "")
		switch op.Kind {
		case "topic":
			for n := range m.topics {
				if strings.HasPrefix(n, prefix) {
					want[n] = true
				}
			}
			got, pages, err = listAll(func(tok string) ([]string, string, error) {
				resp, err := s.Pub.ListTopics(ctx, &pubsubpb.ListTopicsRequest{Project: project, PageSize: int32(op.Page), PageToken: tok})
				if err != nil {
					return nil, "", err
				}
				var ns []string
				for _, t := range resp.Topics {
					ns = append(ns, t.Name)
				}
				return ns, resp.NextPageToken, nil
			})
		case "sub":
			for n := range m.subs {
				if strings.HasPrefix(n, prefix) {
					want[n] = true
				}
			}
			got, pages, err = listAll(func(tok string) ([]string, string, error) {
				resp, err := s.Sub.ListSubscriptions(ctx, &pubsubpb.ListSubscriptionsRequest{Project: project, PageSize: int32(op.Page), PageToken: tok})
				if err != nil {
					return nil, "", err
				}
				var ns []string
				for _, t := range resp.Subscriptions {
					ns = append(ns, t.Name)
				}
				return ns, resp.NextPageToken, nil
			})
		case "snap":
			for n := range m.snaps {
				if strings.HasPrefix(n, prefix) {
					want[n] = true
				}
			}
			got, pages, err = listAll(func(tok string) ([]string, string, error) {
				resp, err := s.Sub.ListSnapshots(ctx, &pubsubpb.ListSnapshotsRequest{Project: project, PageSize: int32(op.Page), PageToken: tok})
				if err != nil {
					return nil, "", err
				}
				var ns []string
				for _, t := range resp.Snapshots {
					ns = append(ns, t.Name)
				}
				return ns, resp.NextPageToken, nil
			})
		case "topicsubs":
			// subscriptions of one topic
			tfull := c12Full("topic", op.Proj, op.Name)
			tg, live := m.topics[tfull]
			for n, sb := range m.subs {
				if live && sb.topic == tfull && sb.tgen == tg {
					want[n] = true
				}
			}
			got, pages, err = listAll(func(tok string) ([]string, string, error) {
				resp, err := s.Pub.ListTopicSubscriptions(ctx, &pubsubpb.ListTopicSubscriptionsRequest{Topic: tfull, PageSize: int32(op.Page), PageToken: tok})
				if err != nil {
					return nil, "", err
				}
				return resp.Subscriptions, resp.NextPageToken, nil
			})
			if !live {
				if status.Code(err) != codes.NotFound {
					return "status/list-topicsubs", fmt.Sprintf("ListTopicSubscriptions(%s) on a topic that is not live: %v", tfull, err)
				}
				return "", ""
			}
		}
		if err != nil {
			return "status/list-" + op.Kind, fmt.Sprintf("List %s of %s (page size %d) failed: %v", op.Kind, project, op.Page, err)
		}
		if pages > 1 && len(want) >= 2 {
			r.classes["list-multipage"]++
		}
		extra, missing, dups := setDiff(got, want)
		if len(extra)+len(missing)+len(dups) > 0 {
			sig := "missing"
			if len(extra) > 0 {
				sig = "foreign"
			} else if len(dups) > 0 {
				sig = "duplicate"
			}
			return "list-" + op.Kind + "/" + sig, fmt.Sprintf("List %s of %q with page size %d over %d pages: unexpected %v, missing %v, repeated %v (live set of that project: %d)", op.Kind, project, op.Page, pages, extra, missing, dups, len(want))
		}
	case "race":
		// N concurrent creates of one name: exactly one winner
		n := op.N
		var wg sync.WaitGroup
		codesGot := make([]codes.Code, n)
		_, existed := map[string]bool{}[full]
		switch op.Kind {
		case "topic":
			_, existed = m.topics[full]
		case "sub":
			_, existed = m.subs[full]
		}
		for i := 0; i < n; i++ {
			wg.Add(1)
			go func(i int) {
				defer wg.Done()
				var err error
				if op.Kind == "topic" {
					_, err = s.Pub.CreateTopic(ctx, &pubsubpb.Topic{Name: full})
				} else {
					_, err = s.Sub.CreateSubscription(ctx, c12SubPB(full, op.Ref, op.Cfg))
				}
				codesGot[i] = status.Code(err)
			}(i)
		}
		wg.Wait()
		ok, exists, other := 0, 0, 0
		for _, c := range codesGot {
			switch c {
			case codes.OK:
				ok++
			case codes.AlreadyExists:
				exists++
			default:
				other++
			}
		}
		topicLive := true
		if op.Kind == "sub" {
			_, topicLive = m.topics[op.Ref]
		}
		wantOK := 1
		if existed || !topicLive {
			wantOK = 0
		}
		if ok != wantOK || (topicLive && other > 0) {
			return "race-" + op.Kind, fmt.Sprintf("%d concurrent creates of %s: %d OK, %d AlreadyExists, %d other (%v); expected exactly %d OK", n, full, ok, exists, other, codesGot, wantOK)
		}
		if ok == 1 {
			m.gen++
			if op.Kind == "topic" {
				m.topics[full] = m.gen
			} else {
				m.subs[full] = &c12Sub{topic: op.Ref, tgen: m.topics[op.Ref], cfg: op.Cfg, gen: m.gen}
			}
		}
		r.classes["race"]++
	case "recreate-sub":
		// delete + create with other settings: nothing is inherited
		return r.recreateSub(op)
	case "recreate-topic":
		return r.recreateTopic(op)
	}
	return "", ""
}

func (r *c12Runner) recreateSub(op c12Op) (string, string) {
	s, m, ctx := r.s, r.m, r.ctx
	full := c12Full("sub", op.Proj, op.Name)
	ms, ok := m.subs[full]
	if !ok {
		return "", ""
	}
	tg, tlive := m.topics[ms.topic]
	if !tlive || tg != ms.tgen {
		return "", ""
	}
	attrs := map[string]string{"x": "1"}
	if _, err := s.Pub.Publish(ctx, &pubsubpb.PublishRequest{Topic: ms.topic, Messages: []*pubsubpb.PubsubMessage{{Data: []byte(`{"old":1}`), Attributes: attrs}, {Data: []byte(`{"old":2}`), Attributes: attrs}}}); err != nil {
		return "status/publish", fmt.Sprintf("publish to live topic %s failed: %v", ms.topic, err)
	}
	pr, err := s.Sub.Pull(ctx, &pubsubpb.PullRequest{Subscription: full, MaxMessages: 1, ReturnImmediately: true})
	if err != nil {
		return "status/pull", fmt.Sprintf("pull on live subscription %s failed: %v", full, err)
	}
	var oldAcks []string
	for _, rm := range pr.ReceivedMessages {
		oldAcks = append(oldAcks, rm.AckId)
	}
	if _, err := s.Sub.DeleteSubscription(ctx, &pubsubpb.DeleteSubscriptionRequest{Subscription: full}); err != nil {
		return "status/delete-sub", fmt.Sprintf("delete of live subscription %s failed: %v", full, err)
	}
	newCfg := ms.cfg + 1
	if _, err := s.Sub.CreateSubscription(ctx, c12SubPB(full, ms.topic, newCfg)); err != nil {
		return "reuse-after-delete", fmt.Sprintf("name %s is not reusable immediately after delete: %v", full, err)
	}
	m.gen++
	m.subs[full] = &c12Sub{topic: ms.topic, tgen: ms.tgen, cfg: newCfg, gen: m.gen}
	got, err := s.Sub.GetSubscription(ctx, &pubsubpb.GetSubscriptionRequest{Subscription: full})
	if err != nil {
		return "status/get-sub", fmt.Sprintf("Get of re-created %s failed: %v", full, err)
	}
	if d := c12CfgMatches(got, newCfg); d != "" {
		return "recreated-inherits-settings", fmt.Sprintf("re-created subscription %s shows %s", full, d)
	}
	pr2, err := s.Sub.Pull(ctx, &pubsubpb.PullRequest{Subscription: full, MaxMessages: 100, ReturnImmediately: true})
	if err != nil {
		return "status/pull", fmt.Sprintf("pull on re-created %s failed: %v", full, err)
	}
	if len(pr2.ReceivedMessages) != 0 {
		return "recreated-inherits-backlog", fmt.Sprintf("re-created subscription %s received %d messages published before it existed", full, len(pr2.ReceivedMessages))
	}
	if len(oldAcks) > 0 {
		// old ack ids must not affect the new incarnation
		if _, err := s.Pub.Publish(ctx, &pubsubpb.PublishRequest{Topic: ms.topic, Messages: []*pubsubpb.PubsubMessage{{Data: []byte(`{"new":1}`), Attributes: attrs}}}); err != nil {
			return "status/publish", err.Error()
		}
		if _, err := s.Sub.Acknowledge(ctx, &pubsubpb.AcknowledgeRequest{Subscription: full, AckIds: oldAcks}); err != nil {
			return "status/ack", fmt.Sprintf("ack of old ids under re-created %s failed: %v", full, err)
		}
		pr3, err := s.Sub.Pull(ctx, &pubsubpb.PullRequest{Subscription: full, MaxMessages: 100, ReturnImmediately: true})
		if err != nil {
			return "status/pull", err.Error()
		}
		if len(pr3.ReceivedMessages) != 1 || string(pr3.ReceivedMessages[0].Message.Data) == "" || !strings.Contains(string(pr3.ReceivedMessages[0].Message.Data), "new") {
			return "recreated-affected-by-old-acks", fmt.Sprintf("re-created subscription %s: expected exactly the new message after acking predecessor's ids, got %d messages", full, len(pr3.ReceivedMessages))
		}
	}
	r.classes["recreate-sub"]++
	return "", ""
}

func (r *c12Runner) recreateTopic(op c12Op) (string, string) {
	s, m, ctx := r.s, r.m, r.ctx
	full := c12Full("topic", op.Proj, op.Name)
	tg, ok := m.topics[full]
	if !ok {
		return "", ""
	}
	// a subscription of the old incarnation
	var oldSub string
	for n, sb := range m.subs {
		if sb.topic == full && sb.tgen == tg {
			oldSub = n
		}
	}
	if oldSub == "" {
		return "", ""
	}
	// drain what the old subscription has so far
	for i := 0; i < 5; i++ {
		pr, err := s.Sub.Pull(ctx, &pubsubpb.PullRequest{Subscription: oldSub, MaxMessages: 1000, ReturnImmediately: true})
		if err != nil || len(pr.ReceivedMessages) == 0 {
			break
		}
		var ids []string
		for _, rm := range pr.ReceivedMessages {
			ids = append(ids, rm.AckId)
		}
		_, _ = s.Sub.Acknowledge(ctx, &pubsubpb.AcknowledgeRequest{Subscription: oldSub, AckIds: ids})
	}
	if _, err := s.Pub.DeleteTopic(ctx, &pubsubpb.DeleteTopicRequest{Topic: full}); err != nil {
		return "status/delete-topic", fmt.Sprintf("delete of live topic %s failed: %v", full, err)
	}
	for n, g := range m.snaps {
		if g == tg {
			delete(m.snaps, n)
		}
	}
	if _, err := s.Pub.CreateTopic(ctx, &pubsubpb.Topic{Name: full}); err != nil {
		return "reuse-after-delete", fmt.Sprintf("name %s is not reusable immediately after delete: %v", full, err)
	}
	m.gen++
	m.topics[full] = m.gen
	if _, err := s.Pub.Publish(ctx, &pubsubpb.PublishRequest{Topic: full, Messages: []*pubsubpb.PubsubMessage{{Data: []byte(`{"new":1}`), Attributes: map[string]string{"x": "1"}}}}); err != nil {
		return "status/publish", fmt.Sprintf("publish to re-created topic %s failed: %v", full, err)
	}
	pr, err := s.Sub.Pull(ctx, &pubsubpb.PullRequest{Subscription: oldSub, MaxMessages: 100, ReturnImmediately: true})
	if err != nil {
		return "status/pull", fmt.Sprintf("pull on %s (of the deleted topic) failed: %v", oldSub, err)
	}
	if len(pr.ReceivedMessages) != 0 {
		return "recreated-topic-feeds-old-subs", fmt.Sprintf("subscription %s of the deleted topic received a message published to the re-created topic %s", oldSub, full)
	}
	r.classes["recreate-topic"]++
	return "", ""
}

func (r *c12Runner) liveOf(kind string) []string {
	var out []string
	switch kind {
	case "topic":
		for n := range r.m.topics {
			out = append(out, n)
		}
	case "sub":
		for n := range r.m.subs {
			out = append(out, n)
		}
	case "snap":
		for n := range r.m.snaps {
			out = append(out, n)
		}
	}
	sort.Strings(out)
	return out
}

func splitFull(full string) (proj, name string) {
	seg := strings.SplitN(full, "/", 4)
	return seg[1], seg[3]
}

func genC12Op(rt *rapid.T, r *c12Runner) c12Op {
	kind := rapid.SampledFrom([]string{"topic", "topic", "sub", "sub", "snap"}).Draw(rt, "kind")
	// most traffic goes to a few related projects so that lists span pages
	proj := rapid.SampledFrom(append([]string{"p", "p", "p", "P", "P", "p_", "p%"}, c12Projects...)).Draw(rt, "proj")
	name := rapid.SampledFrom(c12Shorts).Draw(rt, "name")
	pages := []int{1, 1, 2, 3, 5, 100, 0, -1}
	k := rapid.SampledFrom([]string{"create", "create", "create", "create", "delete", "get", "list", "list", "list", "race", "recreate-sub", "recreate-topic", "topicsubs"}).Draw(rt, "k")
	op := c12Op{K: k, Kind: kind, Proj: proj, Name: name, Cfg: rapid.IntRange(0, 3).Draw(rt, "cfg")}
	// bias towards existing names for delete / get
	if (k == "delete" || k == "get") && rapid.IntRange(0, 3).Draw(rt, "existing") != 0 {
		if l := r.liveOf(kind); len(l) > 0 {
			op.Proj, op.Name = splitFull(rapid.SampledFrom(l).Draw(rt, "live"))
		}
	}
	switch k {
	case "create", "race":
		if kind == "sub" {
			if l := r.liveOf("topic"); len(l) > 0 && rapid.IntRange(0, 9).Draw(rt, "livetopic") != 0 {
				op.Ref = rapid.SampledFrom(l).Draw(rt, "ref")
			} else {
				op.Ref = c12Full("topic", proj, "nonexistent")
			}
		}
		if kind == "snap" {
			if k == "race" {
				op.Kind, op.Ref = "topic", ""
			} else if l := r.liveOf("sub"); len(l) > 0 && rapid.IntRange(0, 9).Draw(rt, "livesub") != 0 {
				op.Ref = rapid.SampledFrom(l).Draw(rt, "ref")
			} else {
				op.Ref = c12Full("sub", proj, "nonexistent")
			}
		}
		if k == "race" {
			op.N = rapid.IntRange(2, 8).Draw(rt, "n")
		}
	case "list":
		op.Page = rapid.SampledFrom(pages).Draw(rt, "page")
	case "topicsubs":
		op.K, op.Kind = "list", "topicsubs"
		op.Page = rapid.SampledFrom(pages).Draw(rt, "page")
		if l := r.liveOf("topic"); len(l) > 0 && rapid.IntRange(0, 5).Draw(rt, "livetopic") != 0 {
			op.Proj, op.Name = splitFull(rapid.SampledFrom(l).Draw(rt, "t"))
		}
	case "recreate-sub":
		if l := r.liveOf("sub"); len(l) > 0 {
			op.Proj, op.Name = splitFull(rapid.SampledFrom(l).Draw(rt, "s"))
		}
	case "recreate-topic":
		if l := r.liveOf("topic"); len(l) > 0 {
			op.Proj, op.Name = splitFull(rapid.SampledFrom(l).Draw(rt, "t"))
		}
	}
	return op
}

// c12NonTrivial: >= 2 related projects each hold live resources and a list was
// walked over more than one page.
func c12NonTrivial(r *c12Runner) bool {
	projs := map[string]bool{}
	for _, k := range []string{"topic", "sub", "snap"} {
		for _, n := range r.liveOf(k) {
			p, _ := splitFull(n)
			projs[p] = true
		}
	}
	return len(projs) >= 2 && r.classes["list-multipage"] > 0
}

func TestC12(t *testing.T) {
	defer reportFailure(t, "C12")
	s := getSUT(t)
	defer closeSUT()
	ctx := context.Background()
	rapid.Check(t, func(rt *rapid.T) {
		if err := s.Reset(seed(), true); err != nil {
			rt.Fatalf("reset: %v", err)
		}
		r := &c12Runner{s: s, m: newC12Model(), ctx: ctx, classes: map[string]int{}}
		n := rapid.IntRange(8, pick(40, 80)).Draw(rt, "nops")
		cs := c12Case{Kind: "names"}
		for i := 0; i < n; i++ {
			op := genC12Op(rt, r)
			cs.Ops = append(cs.Ops, op)
			rule, detail := r.step(op)
			if p := s.TakePanics(); len(p) > 0 && rule == "" {
				rule, detail = "handler-panic", fmt.Sprintf("%v panicked: %s", op, p[0].Value)
			}
			if rule != "" {
				stats.C.Eval(stats.Hash(cs), true, nil)
				failWith(rt, failure{Rule: rule, Detail: fmt.Sprintf("step %d: %s", i, detail), Sig: map[string]any{"rule": rule}, Replay: cs})
			}
		}
		for k, v := range r.classes {
			stats.C.Class(k, v)
		}
		stats.C.Eval(stats.Hash(cs), c12NonTrivial(r), func() any { return cs })
	})
}

func init() {
	replayers["names"] = func(t *testing.T, prop string, raw json.RawMessage) {
		var cs c12Case
		if err := json.Unmarshal(raw, &cs); err != nil {
			t.Fatal(err)
		}
		s := getSUT(t)
		defer closeSUT()
		_ = s.Reset(seed(), true)
		r := &c12Runner{s: s, m: newC12Model(), ctx: context.Background(), classes: map[string]int{}}
		for i, op := range cs.Ops {
			if rule, detail := r.step(op); rule != "" {
				violate(t, prop, failure{Rule: rule, Detail: fmt.Sprintf("step %d: %s", i, detail), Sig: map[string]any{"rule": rule}})
				return
			}
		}
	}
}
