package props

import (
	"context"
	"encoding/json"
	"fmt"
	"sync"
	"testing"
	"time"

	"cloud.google.com/go/pubsub/apiv1/pubsubpb"
	"pgregory.net/rapid"

	"verif/stats"
	"verif/sut"
)

// C04 / C01 under real concurrency (no schedule control, real clock): several
// publishers and several pullers of ONE subscription run at the same time;
// pullers acknowledge what they get. The default lease is 10 s and a run takes
// a second or two, so within a run nothing may be handed out twice: every
// message id is delivered exactly once, as attempt 1, to exactly one puller,
// and every accepted message is delivered by the end. Requests that fail
// (SQLite is a single writer: busy / locked) are simply repeated - a failed
// request may not lose or duplicate anything either.

type c04sCase struct {
	Kind     string `json:"kind"` // "pullstress"
	Pubs     int    `json:"pubs"`
	Pullers  int    `json:"pullers"`
	PerPub   int    `json:"per_pub"`
	Batch    int    `json:"batch"`
	MaxPull  int    `json:"max_pull"`
	Ordered  bool   `json:"ordered"`
	AckEvery int    `json:"ack_every"` // pullers ack every n-th response later, at the end (0 = always at once)
}

func runC04s(s *sut.SUT, cs c04sCase) (rule, detail string) {
	ctx := context.Background()
	if err := s.Reset(seed(), false); err != nil {
		return "harness", err.Error()
	}
	const topic, sub = "projects/p/topics/ts", "projects/p/subscriptions/ss"
	if _, err := s.Pub.CreateTopic(ctx, &pubsubpb.Topic{Name: topic}); err != nil {
		return "harness", err.Error()
	}
	if _, err := s.Sub.CreateSubscription(ctx, &pubsubpb.Subscription{Name: sub, Topic: topic, EnableMessageOrdering: cs.Ordered}); err != nil {
		return "harness", err.Error()
	}
	var mu sync.Mutex
	published := map[string]bool{}
	type seen struct {
		puller  int
		attempt int32
		at      time.Time
	}
	got := map[string][]seen{}
	var pubErrs, pullErrs int
	var wg sync.WaitGroup
	start := time.Now()
	pubDone := make(chan struct{})
	var pubWG sync.WaitGroup
	for p := 0; p < cs.Pubs; p++ {
		pubWG.Add(1)
		go func(p int) {
			defer pubWG.Done()
			for i := 0; i < cs.PerPub; i += cs.Batch {
				req := &pubsubpb.PublishRequest{Topic: topic}
				for j := i; j < i+cs.Batch && j < cs.PerPub; j++ {
					m := &pubsubpb.PubsubMessage{Data: []byte(fmt.Sprintf(`{"p":%d,"i":%d}`, p, j))}
					if cs.Ordered {
						m.OrderingKey = fmt.Sprintf("k%d", p)
					}
					req.Messages = append(req.Messages, m)
				}
				for try := 0; try < 50; try++ {
					resp, err := s.Pub.Publish(ctx, req)
					if err == nil {
						mu.Lock()
						for _, id := range resp.MessageIds {
							published[id] = true
						}
						mu.Unlock()
						break
					}
					mu.Lock()
					pubErrs++
					mu.Unlock()
					time.Sleep(2 * time.Millisecond)
				}
			}
		}(p)
	}
	go func() { pubWG.Wait(); close(pubDone) }()
	deadline := time.Now().Add(8 * time.Second)
	for q := 0; q < cs.Pullers; q++ {
		wg.Add(1)
		go func(q int) {
			defer wg.Done()
			var later []string
			n := 0
			empty := 0
			for time.Now().Before(deadline) {
				resp, err := s.Sub.Pull(ctx, &pubsubpb.PullRequest{Subscription: sub, MaxMessages: int32(cs.MaxPull), ReturnImmediately: true})
				if err != nil {
					mu.Lock()
					pullErrs++
					mu.Unlock()
					time.Sleep(2 * time.Millisecond)
					continue
				}
				if len(resp.ReceivedMessages) == 0 {
					select {
					case <-pubDone:
						if empty++; empty > 20 {
							goto done
						}
					default:
					}
					time.Sleep(time.Millisecond)
					continue
				}
				empty = 0
				var ids []string
				mu.Lock()
				for _, rm := range resp.ReceivedMessages {
					got[rm.Message.MessageId] = append(got[rm.Message.MessageId], seen{q, rm.DeliveryAttempt, time.Now()})
					ids = append(ids, rm.AckId)
				}
				mu.Unlock()
				n++
				if cs.AckEvery > 0 && n%cs.AckEvery == 0 {
					later = append(later, ids...)
					continue
				}
				for try := 0; try < 50; try++ {
					if _, err := s.Sub.Acknowledge(ctx, &pubsubpb.AcknowledgeRequest{Subscription: sub, AckIds: ids}); err == nil {
						break
					}
					time.Sleep(2 * time.Millisecond)
				}
			}
		done:
			for try := 0; try < 50 && len(later) > 0; try++ {
				if _, err := s.Sub.Acknowledge(ctx, &pubsubpb.AcknowledgeRequest{Subscription: sub, AckIds: later}); err == nil {
					break
				}
				time.Sleep(2 * time.Millisecond)
			}
		}(q)
	}
	wg.Wait()
	took := time.Since(start)
	mu.Lock()
	defer mu.Unlock()
	stats.C.Class("stress/publish-errors-retried", pubErrs)
	stats.C.Class("stress/pull-errors-retried", pullErrs)
	if took > 9*time.Second {
		// close to the default lease: a second hand-out would be legitimate
		return "harness", fmt.Sprintf("run took %v", took)
	}
	for id, ss := range got {
		if !published[id] {
			// a publish whose response was an error may still have committed
			continue
		}
		if len(ss) > 1 {
			return "double-delivery", fmt.Sprintf("message %s was handed out %d times within %v (default lease 10 s, nobody nacked): puller %d attempt %d at +%v, puller %d attempt %d at +%v (%d publishers, %d pullers, %d messages)",
				id, len(ss), took.Round(time.Millisecond), ss[0].puller, ss[0].attempt, ss[0].at.Sub(start).Round(time.Millisecond), ss[1].puller, ss[1].attempt, ss[1].at.Sub(start).Round(time.Millisecond), cs.Pubs, cs.Pullers, cs.Pubs*cs.PerPub)
		}
		if ss[0].attempt != 1 {
			return "delivery-attempt", fmt.Sprintf("message %s was delivered once, reporting delivery_attempt %d", id, ss[0].attempt)
		}
	}
	missing := 0
	var one string
	for id := range published {
		if len(got[id]) == 0 {
			missing++
			one = id
		}
	}
	if missing > 0 {
		return "lost", fmt.Sprintf("%d of %d accepted messages (e.g. %s) were never delivered although pullers kept pulling until 20 consecutive empty responses after the last publish (%d pull errors, %d publish errors retried)", missing, len(published), one, pullErrs, pubErrs)
	}
	return "", ""
}

func TestC04Stress(t *testing.T) {
	defer reportFailure(t, "C04")
	s := getSUT(t)
	defer closeSUT()
	rapid.Check(t, func(rt *rapid.T) {
		cs := c04sCase{Kind: "pullstress"}
		cs.Pubs = rapid.IntRange(1, 3).Draw(rt, "pubs")
		cs.Pullers = rapid.IntRange(2, 4).Draw(rt, "pullers")
		cs.PerPub = rapid.SampledFrom([]int{10, 20, 40}).Draw(rt, "perpub")
		cs.Batch = rapid.SampledFrom([]int{1, 3, 10}).Draw(rt, "batch")
		cs.MaxPull = rapid.SampledFrom([]int{1, 2, 5, 100}).Draw(rt, "maxpull")
		cs.Ordered = rapid.IntRange(0, 3).Draw(rt, "ordered") == 0
		cs.AckEvery = rapid.SampledFrom([]int{0, 0, 2, 3}).Draw(rt, "ackevery")
		if cs.Ordered {
			cs.AckEvery = 0 // an unacknowledged head would hold its key back until the end of the run
		}
		// real time: one case in 40 of the property's case count (thorough: one in 10)
		if !oneIn(rt, pick(20, 6)) {
			return
		}
		rule, detail := runC04s(s, cs)
		stats.C.Eval(stats.Hash(cs), true, func() any { return cs })
		stats.C.Class("stress-runs", 1)
		if rule == "harness" {
			stats.C.Class("harness-skip", 1)
			stats.C.Note("stress run skipped: %s", detail)
			return
		}
		if rule != "" {
			failWith(rt, failure{Rule: rule, Detail: detail, Sig: map[string]any{"rule": rule, "stress": true}, Replay: cs})
		}
	})
}

func init() {
	replayers["pullstress"] = func(t *testing.T, prop string, raw json.RawMessage) {
		var cs c04sCase
		_ = json.Unmarshal(raw, &cs)
		s := getSUT(t)
		defer closeSUT()
		// real concurrency: the interleaving is not part of the replay, so the
		// script is repeated
		for k := 0; k < 20; k++ {
			if rule, detail := runC04s(s, cs); rule != "" && rule != "harness" {
				violate(t, prop, failure{Rule: rule, Detail: detail, Sig: map[string]any{"rule": rule, "stress": true}, Replay: cs})
				return
			}
		}
	}
}
