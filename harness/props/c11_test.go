package props

import (
	"context"
	"encoding/json"
	"fmt"
	"os"
	"path/filepath"
	"runtime"
	"strings"
	"sync"
	"testing"
	"time"

	"cloud.google.com/go/pubsub/apiv1/pubsubpb"
	"github.com/google/uuid"
	"google.golang.org/protobuf/types/known/durationpb"
	"pgregory.net/rapid"

	"go.6river.tech/mmmbbb/actions"

	"verif/hist"
	"verif/stats"
	"verif/sut"
)

type c11Step struct {
	K string `json:"k"` // ack | nack | nack0 (modify-deadline 0) | extack | publish | wait
	N int    `json:"n"` // how many outstanding ids (oldest first) / how many messages
	Z int    `json:"z"` // payload size class for publish
}

type c11Case struct {
	Kind     string    `json:"kind"` // "stream"
	MaxMsgs  int       `json:"max_msgs"`
	MaxBytes int       `json:"max_bytes"`
	Sizes    []int     `json:"sizes"` // initial messages (payload size classes)
	Steps    []c11Step `json:"steps"`
	Grpc     bool      `json:"grpc"` // drive through the real StreamingPull RPC instead of the scripted connection
	// Unset (gRPC only): "msgs", "bytes" or "both" - that limit is sent as 0 / -1
	// ("no client limit"); the other one stays binding
	Unset string `json:"unset,omitempty"`
	// Eager (scripted connection only): the first Eager deliveries are
	// acknowledged from inside the send call - on the stream, or with an
	// Acknowledge call outside it
	Eager        int  `json:"eager,omitempty"`
	EagerOutside bool `json:"eager_outside,omitempty"`
	// StallBoundMs overrides the 2 s no-send bound (the start-up scripts run
	// with the process kept busy on purpose)
	StallBoundMs int `json:"stall_bound_ms,omitempty"`
}

var c11SizeBytes = []int{12, 200, 5000}

func c11Payload(i, class int) string {
	base := fmt.Sprintf(`{"i":%d,"p":"`, i)
	pad := c11SizeBytes[class] - len(base) - 2
	if pad < 0 {
		pad = 0
	}
	return base + strings.Repeat("x", pad) + `"}`
}

// flowConn is a scripted StreamConnection that checks the flow-control
// invariant at every send.
type flowConn struct {
	mu        sync.Mutex
	maxMsgs   int
	maxBytes  int
	out       map[uuid.UUID]int // sent and not yet freed by the client: id -> bytes
	order     []uuid.UUID       // ids in send order (outstanding ones)
	sends     int
	lastSend  time.Time
	sentAt    map[uuid.UUID]time.Time
	violation string
	sizeLog   []int // payload size of every send, in order (append only)
	recv      chan *actions.MessageStreamRequest
	closed    chan struct{}
	once      sync.Once
	everFull  bool
	// eager: the client answers the first deliveries from inside Send /
	// SendBatch, i.e. before the stream's send call has returned (a fast client
	// behind a slow transport); eagerFn delivers the answer, then the send
	// call is held for a moment so that the answer is fully digested first
	eagerLeft int
	eagerFn   func(ids []uuid.UUID)
	events    []string // what the client saw and did, with times (diagnostics)
	t0        time.Time
}

func (c *flowConn) logf(f string, a ...any) {
	if c.t0.IsZero() {
		c.t0 = time.Now()
	}
	c.events = append(c.events, fmt.Sprintf("+%v ", time.Since(c.t0).Round(10*time.Microsecond))+fmt.Sprintf(f, a...))
}

func (c *flowConn) tail() string {
	ev := c.events
	if len(ev) > 14 {
		ev = ev[len(ev)-14:]
	}
	return strings.Join(ev, "; ")
}

func (c *flowConn) eager(ds []*actions.SubscriptionMessageDelivery) {
	c.mu.Lock()
	var ids []uuid.UUID
	for _, d := range ds {
		if c.eagerLeft > 0 {
			if _, ok := c.out[d.ID]; ok {
				c.eagerLeft--
				ids = append(ids, d.ID)
				delete(c.out, d.ID)
				for i, o := range c.order {
					if o == d.ID {
						c.order = append(c.order[:i], c.order[i+1:]...)
						break
					}
				}
			}
		}
	}
	fn := c.eagerFn
	c.mu.Unlock()
	if len(ids) > 0 && fn != nil {
		fn(ids)
		time.Sleep(40 * time.Millisecond)
	}
}

func newFlowConn(maxMsgs, maxBytes int) *flowConn {
	return &flowConn{maxMsgs: maxMsgs, maxBytes: maxBytes, out: map[uuid.UUID]int{}, sentAt: map[uuid.UUID]time.Time{}, recv: make(chan *actions.MessageStreamRequest, 64), closed: make(chan struct{})}
}

func (c *flowConn) Close() error { c.once.Do(func() { close(c.closed) }); return nil }

func (c *flowConn) Receive(ctx context.Context) (*actions.MessageStreamRequest, error) {
	select {
	case m := <-c.recv:
		return m, nil
	case <-c.closed:
		return nil, context.Canceled
	case <-ctx.Done():
		return nil, ctx.Err()
	}
}

func (c *flowConn) record(ds []*actions.SubscriptionMessageDelivery) {
	c.mu.Lock()
	defer c.mu.Unlock()
	for _, d := range ds {
		wasEmpty := len(c.out) == 0
		if _, dup := c.out[d.ID]; dup {
			if c.violation == "" {
				c.violation = fmt.Sprintf("duplicate-send: delivery %s was sent again while it is still outstanding on the stream (first sent %v ago)", d.ID, time.Since(c.sentAt[d.ID]).Round(time.Millisecond))
			}
			continue
		}
		c.out[d.ID] = len(d.Payload)
		c.logf("sent %s (%d B, attempt %d)", d.ID.String()[:8], len(d.Payload), d.NumAttempts)
		c.sizeLog = append(c.sizeLog, len(d.Payload))
		c.order = append(c.order, d.ID)
		c.sentAt[d.ID] = time.Now()
		c.sends++
		c.lastSend = time.Now()
		n, b := len(c.out), 0
		for _, x := range c.out {
			b += x
		}
		if n >= c.maxMsgs || b >= c.maxBytes {
			c.everFull = true
		}
		if n > c.maxMsgs && c.violation == "" {
			c.violation = fmt.Sprintf("too-many-outstanding: %d messages are outstanding on the stream, max_outstanding_messages is %d [client log: %s]", n, c.maxMsgs, c.tail())
		}
		if b > c.maxBytes && !(wasEmpty && n == 1) && c.violation == "" {
			c.violation = fmt.Sprintf("too-many-bytes: %d bytes are outstanding on the stream (%d messages), max_outstanding_bytes is %d and this is not a single oversized message sent on an empty window [client log: %s]", b, n, c.maxBytes, c.tail())
		}
	}
}

func (c *flowConn) Send(ctx context.Context, d *actions.SubscriptionMessageDelivery) error {
	c.record([]*actions.SubscriptionMessageDelivery{d})
	c.eager([]*actions.SubscriptionMessageDelivery{d})
	return nil
}

func (c *flowConn) SendBatch(ctx context.Context, ds []*actions.SubscriptionMessageDelivery) error {
	c.record(ds)
	c.eager(ds)
	return nil
}

// take removes the n oldest outstanding ids from the client's view.
func (c *flowConn) take(n int) []uuid.UUID {
	c.mu.Lock()
	defer c.mu.Unlock()
	if n > len(c.order) {
		n = len(c.order)
	}
	ids := append([]uuid.UUID(nil), c.order[:n]...)
	c.order = c.order[n:]
	for _, id := range ids {
		c.logf("client settles %s", id.String()[:8])
	}
	for _, id := range ids {
		delete(c.out, id)
	}
	return ids
}

func (c *flowConn) snapshot() (n, bytes, sends int, viol string) {
	c.mu.Lock()
	defer c.mu.Unlock()
	for _, x := range c.out {
		bytes += x
	}
	return len(c.out), bytes, c.sends, c.violation
}

var c11KnownReported bool

const (
	c11T = "projects/p/topics/t"
	c11S = "projects/p/subscriptions/s"
)

// runC11 executes one script. pending sizes are tracked in a small model to
// decide when the stream owes another send.
func runC11(s *sut.SUT, cs c11Case) (rule, detail string, nontrivial bool) {
	ctx := context.Background()
	if err := s.Reset(seed(), false); err != nil {
		return "harness", err.Error(), false
	}
	_, err := s.Pub.CreateTopic(ctx, &pubsubpb.Topic{Name: c11T})
	if err != nil {
		return "harness", err.Error(), false
	}
	// long leases: within a script nothing is redelivered on its own
	long := &pubsubpb.RetryPolicy{MinimumBackoff: durationpb.New(10 * time.Minute), MaximumBackoff: durationpb.New(10 * time.Minute)}
	if _, err := s.Sub.CreateSubscription(ctx, &pubsubpb.Subscription{Name: c11S, Topic: c11T, RetryPolicy: long}); err != nil {
		return "harness", err.Error(), false
	}
	// unsent: sizes of messages published and not yet sent (or made deliverable again)
	var unsent []int
	// unsentGrp[i]: messages made deliverable by ONE request share a retry time,
	// so the order in which the stream's fetch sees them is not defined
	var unsentGrp []int
	grpSeq := 0
	npub := 0
	publish := func(classes []int) error {
		req := &pubsubpb.PublishRequest{Topic: c11T}
		for _, cl := range classes {
			p := c11Payload(npub, cl)
			npub++
			req.Messages = append(req.Messages, &pubsubpb.PubsubMessage{Data: []byte(p)})
			unsent = append(unsent, len(p))
			grpSeq++
			unsentGrp = append(unsentGrp, grpSeq)
		}
		_, err := s.Pub.Publish(ctx, req)
		return err
	}
	if err := publish(cs.Sizes); err != nil {
		return "harness", err.Error(), false
	}
	// a limit the client leaves unset does not bind; the scripts stay far below
	// the server's own defaults (1000 messages / 10 MiB)
	reqMsgs, reqBytes := int64(cs.MaxMsgs), int64(cs.MaxBytes)
	if cs.Grpc && (cs.Unset == "msgs" || cs.Unset == "both") {
		cs.MaxMsgs, reqMsgs = 1000, 0
	}
	if cs.Grpc && (cs.Unset == "bytes" || cs.Unset == "both") {
		cs.MaxBytes, reqBytes = 10<<20, -1
	}
	conn := newFlowConn(cs.MaxMsgs, cs.MaxBytes)
	sctx, cancel := context.WithCancel(ctx)
	done := make(chan error, 1)
	var sendAck, sendNack, sendNack0 func(ids []uuid.UUID)
	var sendMixed func(zero, extend []uuid.UUID, zeroFirst bool)
	strs := func(ids []uuid.UUID) []string {
		out := make([]string, len(ids))
		for i, id := range ids {
			out[i] = id.String()
		}
		return out
	}
	if cs.Eager > 0 && !cs.Grpc {
		conn.eagerLeft = cs.Eager
		conn.eagerFn = func(ids []uuid.UUID) {
			if cs.EagerOutside {
				_, _ = s.Sub.Acknowledge(ctx, &pubsubpb.AcknowledgeRequest{Subscription: c11S, AckIds: strs(ids)})
			} else {
				conn.recv <- &actions.MessageStreamRequest{Ack: ids}
			}
		}
	}
	if cs.Grpc {
		// the real StreamingPull RPC: requests go through the gRPC adaptation layer
		st, err := s.Sub.StreamingPull(sut.ActorRPC(sctx, "stream"))
		if err != nil {
			cancel()
			return "harness", err.Error(), false
		}
		if err := st.Send(&pubsubpb.StreamingPullRequest{Subscription: c11S, StreamAckDeadlineSeconds: 60, MaxOutstandingMessages: reqMsgs, MaxOutstandingBytes: reqBytes}); err != nil {
			cancel()
			return "harness", err.Error(), false
		}
		go func() {
			for {
				resp, err := st.Recv()
				if err != nil {
					done <- nil
					return
				}
				var ds []*actions.SubscriptionMessageDelivery
				for _, rm := range resp.ReceivedMessages {
					if id, err := uuid.Parse(rm.AckId); err == nil {
						ds = append(ds, &actions.SubscriptionMessageDelivery{ID: id, Payload: rm.Message.Data})
					}
				}
				conn.record(ds)
			}
		}()
		sendAck = func(ids []uuid.UUID) { _ = st.Send(&pubsubpb.StreamingPullRequest{AckIds: strs(ids)}) }
		sendNack0 = func(ids []uuid.UUID) {
			_ = st.Send(&pubsubpb.StreamingPullRequest{ModifyDeadlineAckIds: strs(ids), ModifyDeadlineSeconds: make([]int32, len(ids))})
		}
		sendNack = sendNack0
		sendMixed = func(zero, extend []uuid.UUID, zeroFirst bool) {
			req := &pubsubpb.StreamingPullRequest{}
			// interleave: the ids to nack (deadline 0) and the ids to extend (deadline 30) in one request,
			// starting with either kind (the handler splits the list into runs of equal deadlines)
			add := func(ids []uuid.UUID, i int, secs int32) {
				if i < len(ids) {
					req.ModifyDeadlineAckIds = append(req.ModifyDeadlineAckIds, ids[i].String())
					req.ModifyDeadlineSeconds = append(req.ModifyDeadlineSeconds, secs)
				}
			}
			for i := 0; i < len(zero) || i < len(extend); i++ {
				if zeroFirst {
					add(zero, i, 0)
					add(extend, i, 30)
				} else {
					add(extend, i, 30)
					add(zero, i, 0)
				}
			}
			_ = st.Send(req)
		}
	} else {
		conn.recv <- &actions.MessageStreamRequest{FlowControl: &actions.FlowControl{MaxMessages: cs.MaxMsgs, MaxBytes: cs.MaxBytes}}
		go func() {
			ms := &actions.MessageStreamer{Client: s.Client, SubscriptionName: c11S, AutomaticNack: true}
			done <- ms.Go(sut.WithActor(sctx, "stream"), conn)
		}()
		sendAck = func(ids []uuid.UUID) { conn.recv <- &actions.MessageStreamRequest{Ack: ids} }
		sendNack = func(ids []uuid.UUID) { conn.recv <- &actions.MessageStreamRequest{Nack: ids} }
		sendNack0 = func(ids []uuid.UUID) { conn.recv <- &actions.MessageStreamRequest{Delay: ids, DelaySeconds: 0} }
	}
	defer func() {
		cancel()
		conn.Close()
		select {
		case <-done:
		case <-time.After(5 * time.Second):
		}
		s.WaitStreamsIdle(5 * time.Second)
	}()

	// owes reports whether the stream has capacity for some deliverable message
	// that fits (the statement's reading). headOnly restricts the candidates to
	// the messages the stream's fetch can see: it asks for as many rows as it
	// has message slots, oldest first, so a message that does not fit in the
	// remaining bytes hides the ones behind it (known finding F13).
	owes := func(headOnly bool) bool {
		n, b, _, _ := conn.snapshot()
		if n >= cs.MaxMsgs {
			return false
		}
		if !headOnly {
			for _, sz := range unsent {
				if n == 0 || b+sz <= cs.MaxBytes {
					return true
				}
			}
			return false
		}
		// the fetch sees k rows, oldest retry time first; within a group of
		// equal retry times any subset may be the one it sees, so a fitting
		// message is certainly visible only if the non-fitting members of the
		// group cannot fill the remaining rows
		k := cs.MaxMsgs - n
		for i := 0; i < len(unsent) && k > 0; {
			j := i
			fit, nofit := 0, 0
			for j < len(unsent) && unsentGrp[j] == unsentGrp[i] {
				if n == 0 || b+unsent[j] <= cs.MaxBytes {
					fit++
				} else {
					nofit++
				}
				j++
			}
			if k >= j-i {
				if fit > 0 {
					return true
				}
				k -= j - i
			} else {
				return fit > 0 && nofit < k
			}
			i = j
		}
		return false
	}
	// settle waits until the stream has sent everything it owes (2 s per send)
	holHit := false
	accounted := 0
	// reconcile removes from the unsent list what the stream has sent since the
	// last look (sends can happen at any time, also before settle starts waiting)
	reconcile := func() {
		conn.mu.Lock()
		fresh := append([]int(nil), conn.sizeLog[accounted:]...)
		accounted = len(conn.sizeLog)
		conn.mu.Unlock()
		for _, sz := range fresh {
			for i, u := range unsent {
				if u == sz {
					unsent = append(unsent[:i], unsent[i+1:]...)
					unsentGrp = append(unsentGrp[:i], unsentGrp[i+1:]...)
					break
				}
			}
		}
	}
	settle := func(after string) (string, string) {
		for {
			reconcile()
			_, _, sends, viol := conn.snapshot()
			if viol != "" {
				return strings.SplitN(viol, ":", 2)[0], fmt.Sprintf("after %s: %s", after, viol)
			}
			if !owes(true) {
				if owes(false) && !holHit {
					// head-of-line blocking by a message that does not fit
					holHit = true
					n, b, _, _ := conn.snapshot()
					sig := map[string]any{"rule": "stall", "head_of_line": true}
					det := fmt.Sprintf("after %s: %d messages / %d bytes outstanding (limits %d / %d), deliverable sizes in fetch order %v: a message that fits is hidden behind one that does not", after, n, b, cs.MaxMsgs, cs.MaxBytes, unsent)
					if hist.MatchKnown("stall", sig) == "" {
						return "stall", det
					}
					if !c11KnownReported {
						c11KnownReported = true
						stats.C.Violate(stats.Violation{Property: "C11", Rule: "stall", Detail: det, Signature: sig, Replay: writeReplay("C11", &failure{Rule: "stall", Detail: det, Sig: sig, Replay: cs})})
					}
					stats.C.Class("known/F13", 1)
				}
				time.Sleep(25 * time.Millisecond) // give an over-send the chance to show up
				reconcile()
				_, _, _, viol = conn.snapshot()
				if viol != "" {
					return strings.SplitN(viol, ":", 2)[0], fmt.Sprintf("after %s: %s", after, viol)
				}
				if owes(true) {
					continue
				}
				return "", ""
			}
			bound := 2 * time.Second
			if cs.StallBoundMs > 0 {
				bound = time.Duration(cs.StallBoundMs) * time.Millisecond
			}
			deadline := time.Now().Add(bound)
			progressed := false
			for time.Now().Before(deadline) {
				_, _, s2, _ := conn.snapshot()
				if s2 > sends {
					progressed = true
					break
				}
				time.Sleep(time.Millisecond)
			}
			if !progressed {
				reconcile()
				if !owes(true) {
					continue
				}
				n, b, _, _ := conn.snapshot()
				if os.Getenv("VERIF_DEBUG") != "" {
					rows, _ := s.Raw.Query("select length(m.payload), d.attempts, d.attempt_at, d.completed_at is not null from deliveries d join messages m on m.id=d.message_id order by d.attempt_at")
					for rows != nil && rows.Next() {
						var l, a int
						var at string
						var c bool
						_ = rows.Scan(&l, &a, &at, &c)
						fmt.Printf("   row len=%d attempts=%d attempt_at=%s completed=%v\n", l, a, at, c)
					}
					if rows != nil {
						rows.Close()
					}
					fmt.Printf("   now=%s outstanding=%v parked=%v\n", time.Now().UTC().Format(time.RFC3339Nano), conn.out, sut.TheGate)
					buf := make([]byte, 1<<20)
					buf = buf[:runtime.Stack(buf, true)]
					for _, g := range strings.Split(string(buf), "\n\n") {
						if strings.Contains(g, "message-streamer.go") || strings.Contains(g, "get-subscription-messages.go") {
							fmt.Printf("   GOROUTINE %s\n", strings.ReplaceAll(g, "\n", "\n      "))
						}
					}
				}
				return "stall", fmt.Sprintf("after %s: %d messages / %d bytes are outstanding on the stream (limits %d / %d), %d deliverable messages remain (sizes %v) of which at least one fits, but nothing was sent for %v", after, n, b, cs.MaxMsgs, cs.MaxBytes, len(unsent), unsent, bound)
			}
		}
	}
	if ru, de := settle("opening the stream"); ru != "" {
		return ru, de, false
	}
	freed := map[string]bool{}
	for i, st := range cs.Steps {
		what := fmt.Sprintf("step %d %s(%d)", i, st.K, st.N)
		switch st.K {
		case "ack":
			if ids := conn.take(st.N); len(ids) > 0 {
				sendAck(ids)
				freed["ack"] = true
			}
		case "nack":
			if !cs.Grpc {
				if ids := conn.take(st.N); len(ids) > 0 {
					sendNack(ids)
					freed["nack"] = true
				}
				break
			}
			fallthrough // over gRPC a nack IS a zero deadline
		case "nack0", "mixed":
			// the gRPC form of a nack: modify-deadline 0 - the message is deliverable again at once
			c := conn
			c.mu.Lock()
			k := st.N
			if k > len(c.order) {
				k = len(c.order)
			}
			var sizes []int
			for _, id := range c.order[:k] {
				sizes = append(sizes, c.out[id])
			}
			c.mu.Unlock()
			if ids := conn.take(st.N); len(ids) > 0 {
				unsent = append(unsent, sizes...)
				grpSeq++
				for range sizes {
					unsentGrp = append(unsentGrp, grpSeq)
				}
				if st.K == "mixed" && cs.Grpc {
					// the same request also extends the deadline of (up to N) other outstanding messages
					conn.mu.Lock()
					var ext []uuid.UUID
					for _, id := range conn.order {
						if len(ext) < st.N {
							ext = append(ext, id)
						}
					}
					conn.mu.Unlock()
					sendMixed(ids, ext, st.Z%2 == 1)
					freed["mixed"] = true
				} else {
					sendNack0(ids)
				}
				freed["nack0"] = true
			}
		case "extack":
			if ids := conn.take(st.N); len(ids) > 0 {
				var ss []string
				for _, id := range ids {
					ss = append(ss, id.String())
				}
				// Z = 0: one Acknowledge call; 1: one call per id, back to back; 2:
				// one call per id, concurrently (a second commit landing while the
				// stream is still digesting the first one's notification)
				var err error
				switch {
				case st.Z == 0 || len(ss) == 1:
					_, err = s.Sub.Acknowledge(ctx, &pubsubpb.AcknowledgeRequest{Subscription: c11S, AckIds: ss})
				case st.Z == 1:
					for _, id := range ss {
						if _, e := s.Sub.Acknowledge(ctx, &pubsubpb.AcknowledgeRequest{Subscription: c11S, AckIds: []string{id}}); e != nil {
							err = e
						}
					}
					freed["extack-burst"] = true
				default:
					errs := make(chan error, len(ss))
					for _, id := range ss {
						go func(id string) {
							_, e := s.Sub.Acknowledge(ctx, &pubsubpb.AcknowledgeRequest{Subscription: c11S, AckIds: []string{id}})
							errs <- e
						}(id)
					}
					for range ss {
						if e := <-errs; e != nil {
							err = e
						}
					}
					freed["extack-burst"] = true
				}
				if err != nil {
					return "harness", err.Error(), false
				}
				freed["extack"] = true
			}
		case "extack-window":
			// two Acknowledge calls outside the stream, the second one placed by
			// the gate scheduler: it runs while a goroutine of the stream sits
			// right after a query it made outside a transaction (the pass that
			// digests the first ack's notification)
			ids := conn.take(2)
			if len(ids) == 0 {
				break
			}
			sched := sut.NewScheduler("stream")
			sched.Only = map[string]bool{"postQuery": true}
			sut.TheGate.SetScheduler(sched)
			var err error
			parked := 0
			for k, id := range ids {
				if _, e := s.Sub.Acknowledge(ctx, &pubsubpb.AcknowledgeRequest{Subscription: c11S, AckIds: []string{id.String()}}); e != nil {
					err = e
				}
				if k == 0 {
					parked = sched.WaitParked(1, 300*time.Millisecond)
				}
			}
			sched.ReleaseAll()
			sut.TheGate.SetScheduler(nil)
			if err != nil {
				return "harness", err.Error(), false
			}
			freed["extack"] = true
			if parked > 0 && len(ids) == 2 {
				freed["extack-window"] = true
			}
		case "publish":
			classes := make([]int, st.N)
			for j := range classes {
				classes[j] = st.Z
			}
			if err := publish(classes); err != nil {
				return "harness", err.Error(), false
			}
		case "wait":
			time.Sleep(20 * time.Millisecond)
		}
		if ru, de := settle(what); ru != "" {
			return ru, de, conn.everFull
		}
	}
	conn.mu.Lock()
	nontrivial = conn.everFull && len(freed) >= 1
	conn.mu.Unlock()
	return "", "", nontrivial
}

func genC11(rt *rapid.T) c11Case {
	cs := c11Case{Kind: "stream"}
	cs.MaxMsgs = rapid.SampledFrom([]int{1, 1, 2, 3, 5, 1000}).Draw(rt, "maxmsgs")
	cs.MaxBytes = rapid.SampledFrom([]int{5, 12, 13, 100, 200, 212, 400, 5000, 5300, 1 << 20}).Draw(rt, "maxbytes")
	n := rapid.IntRange(1, 8).Draw(rt, "nmsg")
	for i := 0; i < n; i++ {
		cs.Sizes = append(cs.Sizes, rapid.SampledFrom([]int{0, 0, 1, 1, 2}).Draw(rt, "size"))
	}
	if rapid.IntRange(0, 7).Draw(rt, "byteshape") == 0 {
		// byte-binding shape: messages of one size, a byte limit that holds
		// exactly k of them (one byte short of k+1), more message slots than that,
		// and more than k messages waiting - the budget has to add up
		class := rapid.IntRange(0, 2).Draw(rt, "class")
		k := rapid.IntRange(1, 3).Draw(rt, "k")
		sz := len(c11Payload(0, class))
		cs.MaxMsgs = rapid.SampledFrom([]int{5, 1000}).Draw(rt, "maxmsgs2")
		cs.MaxBytes = (k+1)*sz - 1
		cs.Sizes = nil
		for i := 0; i < k+rapid.IntRange(1, 3).Draw(rt, "extra"); i++ {
			cs.Sizes = append(cs.Sizes, class)
		}
	}
	ns := rapid.IntRange(2, 9).Draw(rt, "nsteps")
	for i := 0; i < ns; i++ {
		k := rapid.SampledFrom([]string{"ack", "ack", "nack", "nack0", "nack0", "extack", "extack", "extack-window", "publish", "wait", "mixed"}).Draw(rt, "step")
		cs.Steps = append(cs.Steps, c11Step{K: k, N: rapid.IntRange(1, 3).Draw(rt, "n"), Z: rapid.IntRange(0, 2).Draw(rt, "z")})
	}
	cs.Grpc = rapid.IntRange(0, 2).Draw(rt, "grpc") == 0
	if !cs.Grpc && rapid.IntRange(0, 3).Draw(rt, "eager") == 0 {
		cs.Eager = rapid.IntRange(1, 3).Draw(rt, "neager")
		cs.EagerOutside = rapid.Bool().Draw(rt, "eager-outside")
	}
	if cs.Grpc {
		cs.Unset = rapid.SampledFrom([]string{"", "", "", "msgs", "bytes", "both"}).Draw(rt, "unset")
	}
	return cs
}

func TestC11(t *testing.T) {
	defer reportFailure(t, "C11")
	s := getSUT(t)
	defer closeSUT()
	// canary scripts of known findings (F13): deterministic KNOWN-FINDING line
	dir := os.Getenv("VERIF_KNOWN_DIR")
	if dir == "" {
		dir = "/verif/known"
	}
	files, _ := filepath.Glob(filepath.Join(dir, "C11-*.json"))
	for _, f := range files {
		b, err := os.ReadFile(f)
		if err != nil {
			continue
		}
		var d struct {
			Case c11Case `json:"case"`
		}
		if json.Unmarshal(b, &d) != nil || d.Case.Kind != "stream" {
			continue
		}
		rule, detail, _ := runC11(s, d.Case)
		stats.C.EvalN(1)
		stats.C.Class("canary/"+filepath.Base(f), 1)
		if rule != "" && rule != "harness" {
			violate(t, "C11", failure{Rule: rule, Detail: "canary " + filepath.Base(f) + ": " + detail, Sig: map[string]any{"rule": rule}, Replay: d.Case})
			t.FailNow()
		}
	}
	rapid.Check(t, func(rt *rapid.T) {
		cs := genC11(rt)
		rule, detail, nt := runC11(s, cs)
		stats.C.Eval(stats.Hash(cs), nt, func() any { return cs })
		stats.C.Class("scripts", 1)
		if rule == "harness" {
			stats.C.Class("harness-skip", 1)
			stats.C.Note("script skipped: %s", detail)
			return
		}
		if rule == "stall" {
			misses := 1
			for k := 0; k < 2; k++ {
				if r2, _, _ := runC11(s, cs); r2 == "stall" {
					misses++
				}
			}
			if misses < 3 {
				stats.C.Class("inconclusive-stall", 1)
				stats.C.Note("inconclusive: script %v stalled %d of 3 runs", cs, misses)
				return
			}
		}
		if rule != "" {
			sig := map[string]any{"rule": rule}
			for _, st := range cs.Steps {
				if st.K == "nack0" {
					sig["uses_modify_deadline_zero"] = true
				}
				if st.K == "mixed" && cs.Grpc {
					sig["mixed_deadlines_in_one_request"] = true
				}
				if st.K == "extack-window" {
					sig["external_ack_placed_after_stream_query"] = true
				}
			}
			failWith(rt, failure{Rule: rule, Detail: detail, Sig: sig, Replay: cs})
		}
	})
}

func init() {
	replayers["stream"] = func(t *testing.T, prop string, raw json.RawMessage) {
		var cs c11Case
		_ = json.Unmarshal(raw, &cs)
		s := getSUT(t)
		defer closeSUT()
		misses := 0
		var last, lastRule string
		for k := 0; k < 3; k++ {
			rule, detail, _ := runC11(s, cs)
			if rule != "" && rule != "harness" {
				misses++
				last, lastRule = detail, rule
				if rule != "stall" {
					break
				}
			}
		}
		if misses == 3 || (misses > 0 && lastRule != "stall") {
			violate(t, prop, failure{Rule: lastRule, Detail: last})
		}
	}
}

// TestC11StartupRace: the first delivery of a stream is acknowledged with an
// Acknowledge call outside the stream the moment it is sent, while the process
// is kept busy so that goroutines start late. The capacity freed by that ack
// has to show like any other (the second message must be sent).
func TestC11StartupRace(t *testing.T) {
	defer reportFailure(t, "C11")
	s := getSUT(t)
	defer closeSUT()
	stop := make(chan struct{})
	for i := 0; i < 2*runtime.NumCPU(); i++ {
		go func() {
			for {
				select {
				case <-stop:
					return
				default:
				}
			}
		}()
	}
	defer close(stop)
	n := pick(40, 150)
	for i := 0; i < n; i++ {
		cs := c11Case{Kind: "stream", MaxMsgs: 1, MaxBytes: 1 << 20, Sizes: []int{0, 0}, Eager: 1, EagerOutside: i%4 != 3, StallBoundMs: 6000}
		rule, detail, _ := runC11(s, cs)
		stats.C.EvalN(1)
		stats.C.Class("startup-scripts", 1)
		if rule == "harness" {
			stats.C.Class("harness-skip", 1)
			continue
		}
		if rule == "stall" {
			// the stall itself is the evidence (it depends on goroutine timing and
			// need not repeat); what must repeat is that the script is otherwise fine
			ok := 0
			for k := 0; k < 3; k++ {
				if r2, _, _ := runC11(s, cs); r2 == "" {
					ok++
				}
			}
			if ok == 0 {
				stats.C.Class("inconclusive-stall", 1)
				stats.C.Note("inconclusive: startup script stalled in every run: %s", detail)
				continue
			}
		}
		if rule != "" {
			violate(t, "C11", failure{Rule: rule, Detail: "first delivery acknowledged the moment it is sent, process busy: " + detail, Sig: map[string]any{"rule": rule, "startup": true}, Replay: cs})
			return
		}
	}
}
