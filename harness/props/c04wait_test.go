package props

import (
	"context"
	"encoding/json"
	"fmt"
	"testing"
	"time"

	"cloud.google.com/go/pubsub/apiv1/pubsubpb"
	"google.golang.org/protobuf/types/known/durationpb"
	"pgregory.net/rapid"

	"verif/stats"
	"verif/sut"
)

// C04, "... and it is handed out again once that deadline has passed", for a
// consumer that is already WAITING when the lease lapses: nothing commits at
// that moment, so the waiter depends on the pull's own retry timer. Real clock.
//
// A first puller takes all messages (attempt 1) and never answers. A second
// consumer - a blocking Pull or a StreamingPull - is started right afterwards.
// It must not see a message before the lease ends, and must see it promptly
// after it ended (attempt 2), long before its own wait would time out.

type c04wCase struct {
	Kind    string `json:"kind"` // "waitlease"
	MinMs   int    `json:"min_ms"`
	MaxMs   int    `json:"max_ms"`
	NMsgs   int    `json:"nmsgs"`
	Stream  bool   `json:"stream"`
	Ordered bool   `json:"ordered"`
	LateMs  int    `json:"late_ms"` // the waiter starts this long after the first pull
}

const (
	c4wT = "projects/p/topics/tw"
	c4wS = "projects/p/subscriptions/sw"
)

func runC04w(s *sut.SUT, cs c04wCase) (rule, detail string) {
	ctx := context.Background()
	if err := s.Reset(seed(), false); err != nil {
		return "harness", err.Error()
	}
	if _, err := s.Pub.CreateTopic(ctx, &pubsubpb.Topic{Name: c4wT}); err != nil {
		return "harness", err.Error()
	}
	sub := &pubsubpb.Subscription{Name: c4wS, Topic: c4wT, EnableMessageOrdering: cs.Ordered,
		RetryPolicy: &pubsubpb.RetryPolicy{MinimumBackoff: durationpb.New(time.Duration(cs.MinMs) * time.Millisecond), MaximumBackoff: durationpb.New(time.Duration(cs.MaxMs) * time.Millisecond)}}
	if _, err := s.Sub.CreateSubscription(ctx, sub); err != nil {
		return "harness", err.Error()
	}
	req := &pubsubpb.PublishRequest{Topic: c4wT}
	for i := 0; i < cs.NMsgs; i++ {
		m := &pubsubpb.PubsubMessage{Data: []byte(fmt.Sprintf(`{"i":%d}`, i))}
		if cs.Ordered {
			m.OrderingKey = "k"
		}
		req.Messages = append(req.Messages, m)
	}
	if _, err := s.Pub.Publish(ctx, req); err != nil {
		return "harness", err.Error()
	}
	before := time.Now()
	first, err := s.Sub.Pull(ctx, &pubsubpb.PullRequest{Subscription: c4wS, MaxMessages: int32(cs.NMsgs)})
	after := time.Now()
	if err != nil || len(first.ReceivedMessages) == 0 {
		return "harness", fmt.Sprintf("first pull: %v, %d messages", err, len(first.GetReceivedMessages()))
	}
	// retry deadline of attempt 1: min(max, min x 1.1^1), plus less than 1 s of
	// jitter when the delay exceeds half a second
	delay := time.Duration(float64(cs.MinMs)*1.1) * time.Millisecond
	if mx := time.Duration(cs.MaxMs) * time.Millisecond; delay > mx {
		delay = mx
	}
	jitter := time.Duration(0)
	if delay > 500*time.Millisecond {
		jitter = time.Second
	}
	earliest := before.Add(delay).Add(-30 * time.Millisecond)
	latest := after.Add(delay + jitter + 1200*time.Millisecond)
	time.Sleep(time.Duration(cs.LateMs) * time.Millisecond)

	wctx, cancel := context.WithDeadline(ctx, latest.Add(2*time.Second))
	defer cancel()
	type got struct {
		at      time.Time
		attempt int32
		data    string
	}
	recv := make(chan got, 16)
	go func() {
		defer close(recv)
		if cs.Stream {
			st, err := s.Sub.StreamingPull(wctx)
			if err != nil {
				return
			}
			if st.Send(&pubsubpb.StreamingPullRequest{Subscription: c4wS, StreamAckDeadlineSeconds: 60, MaxOutstandingMessages: 100, MaxOutstandingBytes: 1 << 20}) != nil {
				return
			}
			for {
				resp, err := st.Recv()
				if err != nil {
					return
				}
				for _, rm := range resp.ReceivedMessages {
					recv <- got{time.Now(), rm.DeliveryAttempt, string(rm.Message.Data)}
				}
			}
		}
		for wctx.Err() == nil {
			resp, err := s.Sub.Pull(wctx, &pubsubpb.PullRequest{Subscription: c4wS, MaxMessages: int32(cs.NMsgs)})
			if err != nil {
				return
			}
			for _, rm := range resp.ReceivedMessages {
				recv <- got{time.Now(), rm.DeliveryAttempt, string(rm.Message.Data)}
			}
			if len(resp.ReceivedMessages) > 0 {
				return
			}
		}
	}()
	defer func() {
		cancel()
		for range recv {
		}
		s.WaitStreamsIdle(5 * time.Second)
	}()
	kind := "blocking Pull"
	if cs.Stream {
		kind = "StreamingPull"
	}
	select {
	case g, ok := <-recv:
		if !ok {
			return "late-redelivery", fmt.Sprintf("%d messages delivered as attempt 1 at +0 with retry policy %d-%d ms (deadline +%v, jitter < %v): a %s waiting since +%d ms ended without receiving anything", cs.NMsgs, cs.MinMs, cs.MaxMs, delay, jitter, kind, cs.LateMs)
		}
		if g.at.Before(earliest) {
			return "early-redelivery", fmt.Sprintf("message %s delivered as attempt 1, retry deadline %v later; a second consumer (%s) received it %v after the first delivery (attempt %d)", g.data, delay, kind, g.at.Sub(before).Round(time.Millisecond), g.attempt)
		}
		if g.at.After(latest) {
			return "late-redelivery", fmt.Sprintf("message %s: retry deadline %v (+ jitter < %v) after delivery; the waiting %s received it only %v after the first delivery", g.data, delay, jitter, kind, g.at.Sub(after).Round(time.Millisecond))
		}
		if g.attempt != 2 {
			return "delivery-attempt", fmt.Sprintf("second delivery of message %s reports delivery_attempt %d", g.data, g.attempt)
		}
		// the second lease starts when the waiter was handed the message, not
		// when it began to wait: half-way through it a third consumer gets nothing
		lease2 := time.Duration(float64(cs.MinMs)*1.21) * time.Millisecond
		if mx := time.Duration(cs.MaxMs) * time.Millisecond; lease2 > mx {
			lease2 = mx
		}
		if lease2 <= 500*time.Millisecond && cs.NMsgs == 1 {
			time.Sleep(time.Until(g.at.Add(lease2 / 2)))
			third, err := s.Sub.Pull(ctx, &pubsubpb.PullRequest{Subscription: c4wS, MaxMessages: 10, ReturnImmediately: true})
			if err == nil && len(third.ReceivedMessages) > 0 && time.Since(g.at) < lease2-30*time.Millisecond {
				return "early-redelivery", fmt.Sprintf("message %s was handed to a waiting %s as attempt 2 (retry deadline %v later); a third consumer received it %v after that hand-out (attempt %d) - the waiter had been waiting for %v",
					g.data, kind, lease2, time.Since(g.at).Round(time.Millisecond), third.ReceivedMessages[0].DeliveryAttempt, g.at.Sub(after).Round(time.Millisecond))
			}
		}
	case <-time.After(time.Until(latest)):
		return "late-redelivery", fmt.Sprintf("%d messages delivered as attempt 1 with retry policy %d-%d ms (deadline %v, jitter < %v): a %s waiting since +%d ms had received nothing %v after the first delivery", cs.NMsgs, cs.MinMs, cs.MaxMs, delay, jitter, kind, cs.LateMs, time.Since(after).Round(time.Millisecond))
	}
	return "", ""
}

func TestC04WaitingPull(t *testing.T) {
	defer reportFailure(t, "C04")
	s := getSUT(t)
	defer closeSUT()
	rapid.Check(t, func(rt *rapid.T) {
		cs := c04wCase{Kind: "waitlease"}
		cs.MinMs = rapid.SampledFrom([]int{200, 300, 400, 600, 900}).Draw(rt, "min")
		cs.MaxMs = rapid.SampledFrom([]int{cs.MinMs, cs.MinMs, 2 * cs.MinMs, 5000}).Draw(rt, "max")
		cs.NMsgs = rapid.IntRange(1, 3).Draw(rt, "n")
		cs.Stream = rapid.Bool().Draw(rt, "stream")
		cs.Ordered = rapid.IntRange(0, 3).Draw(rt, "ordered") == 0
		cs.LateMs = rapid.SampledFrom([]int{0, 0, 50, 150}).Draw(rt, "late")
		// the shared counters of TestC04 / TestC04Concurrent scale with the case
		// count of the property; this part is real time, so it takes one case in 30
		// (thorough: one in 10)
		if !oneIn(rt, pick(20, 6)) {
			return
		}
		rule, detail := runC04w(s, cs)
		stats.C.Eval(stats.Hash(cs), true, func() any { return cs })
		stats.C.Class("waiting-consumer-scripts", 1)
		if cs.Stream {
			stats.C.Class("waiting-consumer-scripts/stream", 1)
		}
		if rule == "harness" {
			stats.C.Class("harness-skip", 1)
			stats.C.Note("waiting-consumer script skipped: %s", detail)
			return
		}
		if rule != "" {
			n := 1
			for k := 0; k < 2; k++ {
				if r2, _ := runC04w(s, cs); r2 == rule {
					n++
				}
			}
			if n < 3 {
				stats.C.Class("inconclusive", 1)
				stats.C.Note("inconclusive: %s reproduced %d of 3 times: %s", rule, n, detail)
				return
			}
			failWith(rt, failure{Rule: rule, Detail: detail, Sig: map[string]any{"rule": rule, "waiting": true}, Replay: cs})
		}
	})
}

func init() {
	replayers["waitlease"] = func(t *testing.T, prop string, raw json.RawMessage) {
		var cs c04wCase
		_ = json.Unmarshal(raw, &cs)
		s := getSUT(t)
		defer closeSUT()
		n := 0
		var lr, ld string
		for k := 0; k < 3; k++ {
			if rule, detail := runC04w(s, cs); rule != "" && rule != "harness" {
				n++
				lr, ld = rule, detail
			}
		}
		if n == 3 {
			violate(t, prop, failure{Rule: lr, Detail: ld, Sig: map[string]any{"rule": lr, "waiting": true}, Replay: cs})
		}
	}
}
