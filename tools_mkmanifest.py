#!/usr/bin/env python3
"""Regenerates MANIFEST.json from checkcfg.py + manifest_meta.py (single source of truth)."""
import json, os, sys
VERIF = os.path.dirname(os.path.abspath(__file__))
sys.path.insert(0, VERIF)
from checkcfg import PROPS
from manifest_meta import META, ENGINES, NOT_APPLICABLE, NOTES

props = [json.loads(l)["id"] for l in open(os.path.join(VERIF, "properties.jsonl"))]
checks = []
for pid in props:
    if pid not in PROPS or pid not in META:
        continue
    m = META[pid]
    checks.append({
        "property_id": pid,
        "quick_cmd": f"./check {pid} --tier quick",
        "thorough_cmd": f"./check {pid} --tier thorough",
        "evidence_file": f"/verif/evidence/{pid}.json",
        "replay_cmd_template": f"./check {pid} --replay {{path}}",
        "engine": m["engine"],
        "level_claimed": {"category": PROPS[pid].get("level", "exploration"), "text": m["level_text"], "design_ref": m["design_ref"]},
        "level_note": m["level_note"],
        "technique": m["technique"],
    })
na = [{"property_id": p, "reason": NOT_APPLICABLE.get(p, "check not built yet (work in progress)")} for p in props if p not in PROPS or p not in META]
man = {
    "version": 1,
    "setup_cmd": "cd /verif/harness && GOFLAGS=-mod=mod GOPROXY=off GOTOOLCHAIN=auto go build ./cmd/instrument && rm -f instrument",
    "hooks": {
        "guard": "verif",
        "enable": "go test -tags verif -overlay <generated>: /verif/harness/cmd/instrument derives a build overlay from /repo's current working tree (virtual clock in actions/ and services/, export shims from /verif/hooks, all tag-guarded); nothing is committed to or edited in /repo",
        "baseline_off_cmd": "cd /repo && GOFLAGS=-mod=mod GOPROXY=off go test -vet=off -count=1 ./...",
        "source_commits": [],
        "add_only": True,
    },
    "engines": ENGINES,
    "checks": checks,
    "notes": NOTES,
    "not_applicable": na,
}
json.dump(man, open(os.path.join(VERIF, "MANIFEST.json"), "w"), indent=1)
print(f"MANIFEST.json: {len(checks)} checks, {len(na)} not claimed")
