#!/usr/bin/env python3
"""Final pass over all independently seeded changes: re-confirm each one and run the listed checks
(quick, then thorough if quick misses); writes /verif/seeded/<id>/meta.json. Run sequentially."""
import json, os, subprocess, sys
SEEDS = {
 # id: (demo package, checks to run, what it needs to manifest)
 "C01-A": ("actions", "C13,C02,C01", "two subscriptions on one topic; A acks out of order, snapshots itself and seeks to that snapshot: the ack-list update lost its subscription predicate, so B's deliveries of those messages are completed too"),
 "C01-B": ("actions", "C01", "topic with >=2 subscriptions of which an earlier one (iteration order) has a filter rejecting the message: `break` instead of skip drops the delivery for every later subscription"),
 "C02-A": ("services", "C13,C02", "same code site as C01-A found independently (seek-to-snapshot acks a sibling's deliveries), demonstrated through the gRPC handlers"),
 "C02-B": ("services", "C02", "payload with a JSON number float64 cannot hold exactly (integer above 2^53 or >17 significant digits): publish re-encodes the payload through `any`"),
 "C03-A": ("actions", "C03,C06", "dead-letter policy N; the message is acked on its N-th delivery and then nacked through the stream/push nack path: the nack query lost CompletedAtIsNil, so the acked message is forwarded to the dead-letter topic"),
 "C03-B": ("services", "C03", "an ack carried in the *initial* StreamingPull request (legal, unusual): adaptIn returns early after the flow-control block and drops it; visible only after the lease lapses"),
 "C04-A": ("actions", "C04", "positive ModifyAckDeadline shorter than the remaining lease (lease 11 s+, modack 1-10 s): the only-later guard is appended to a slice that is never used"),
 "C04-B": ("actions", "C04", "two concurrent pullers with the interleaving P1.query | P2 pull | P1.update: query and lease update were split into two transactions"),
 "C05-A": ("actions", "C05", "ordered sub: publish m1 (key K), pull+ack it, publish m2 (key K), seek back before m1: predecessor lookup now skips completed deliveries, so m2 is not chained to the revived m1"),
 "C05-B": ("services", "C05", "one Publish request with >=3 messages of one ordering key: a shared batch timestamp makes `ORDER BY published_at DESC LIMIT 1` pick the first message of the batch as predecessor of all later ones"),
 "C06-A": ("actions", "C06,C03", "same class as C03-A found independently: stale nack after ack on the last permitted attempt dead-letters an acknowledged message"),
 "C06-B": ("actions", "C06", "dead-letter topic deleted while it still has a live subscription: the topic lookup lost DeletedAtIsNil, so exhausted messages are forwarded through a deleted topic"),
 "C07-A": ("filter", "C07", "attribute present with an EMPTY value under =, != or hasPrefix: presence test replaced by `v == \"\"`"),
 "C07-B": ("actions", "C07", "delete a filtered subscription and re-create it under the same name with another filter: a parsed-filter cache keyed by subscription name serves the stale filter"),
 "C08-A": ("filter", "C08", "quoted attribute name starting with a digit (\"1x\", \"42\"): rendered unquoted by AsFilter, which the lexer reads as a number"),
 "C08-B": ("actions", "C08", "string literal ending in an escaped backslash (\"C:\\\\\") followed by a deeply nested tail: the nesting pre-scan gets inside/outside-of-string inverted (false reject / guard bypass)"),
 "C09-A": ("actions", "C09", "a storage failure exactly at COMMIT of a publish (or dead-letter move, seek) while a consumer waits: wake-up moved into a defer runs although the commit failed"),
 "C09-B": ("actions", "C09", "one stream request carrying acks AND nacks with a failure/cancel in the nack half: ack and nack were split into two transactions"),
 "C10-A": ("actions", "C10", "a writer committing between a waiting pull's empty check and its registration for wake-ups (the awaiter is now registered after the query)"),
 "C10-B": ("actions", "C10", "ordered subscription with a dead-letter policy whose topic has no live subscription (or is deleted): dead-lettering the predecessor no longer wakes the waiter for the successor"),
 "C11-A": ("actions", "C11", "a binding byte limit and >=3 candidates in one fetch where pairs fit but the total does not: `bytes = len` instead of `bytes += len`"),
 "C11-B": ("actions", "C11", "two Acknowledge calls outside the stream in quick succession: the refresher has no notifier registered while a pass runs, so the second ack leaves a phantom pending entry"),
 "C12-A": ("services", "C12", "ListSubscriptions over more than one page: the page token is taken from the look-ahead row, which is then excluded from both pages"),
 "C12-B": ("services", "C12", "two projects differing only by case that both hold snapshots, on SQLite: ListSnapshots lost the exact-prefix predicate"),
 "C13-A": ("actions", "C13", "snapshot taken while something is unacked, then exactly the oldest-unacked message is acked, then seek to the snapshot: GTE -> GT on the boundary"),
 "C13-B": ("actions", "C13", "a sibling subscription acked a message the snapshotted one has not (newer than its oldest unacked): the snapshot's acked list lost the subscription predicate"),
 "C14-A": ("actions", "C14,C13", "publish, snapshot, ack, let part of the retention pass, seek to the snapshot, then look between publish+retention and seek+retention: the revive forgot SetExpiresAt"),
 "C14-B": ("actions", "C14", "only EMPTY pulls spread over more than one TTL with a sweep in between: two cooperating edits removed the expiry refresh from the empty path"),
 "C15-A": ("actions", "C15", "ordered subscription, two same-key messages, the earlier acked/expired, a prune job before the later completes: the not-before FK cascades instead of SET NULL"),
 "C15-B": ("actions", "C15", "a subscription deleted by expiry and the expire job running again before minAge: DeletedAtIsNil dropped, deleted_at is re-stamped so nothing ever ages out (and batch 1 never reaches live expired ones)"),
 "C16-A": ("services", "C16", "UpdateSubscription with `retry_policy` in the mask and no retry_policy message (the normal way to clear it): direct field access instead of nil-safe getters"),
 "C16-B": ("services", "C16", "a Publish batch whose LATER message has a non-JSON payload: each message now commits in its own transaction, so the rejected request leaves earlier messages stored"),
 "C17-A": ("services", "C17,C14", "UpdateSubscription with expiration_policy in the mask and a zero/absent TTL: expires_at is computed before the default is filled in (Get shows 30 d, the next sweep deletes it)"),
 "C17-B": ("services", "C17", "durations with sub-microsecond digits that are also >= ~0.5 s: Interval.Value() formats float seconds"),
 "C18-A": ("faults", "C18", ">=2 matching descriptions for one operation and >=2 callers racing for the last count of the first: `continue` became `break`, the loser skips the next description"),
 "C18-B": ("grpc", "C18", "an earlier request carrying k=v, a fault injected on k=v, then a call that omits k: the pooled parameter map is no longer cleared"),
 "C19-A": ("actions", "C19", "endpoint answering 203 (the only wrongly treated status of 200-599): success list became the range 200..204"),
 "C19-B": ("actions", "C19", "exactly 9 fast successes (window 10) then a message failing twice in a row: the nack clamp lets the window reach 0"),
 # ---- second wave (changes C and D), written by fresh sub-agents told only the property and what A and B were
 "C07-C": ("filter", "C07", "an un-parenthesised OR chain of three or more operands with the first operand false: orTerms short-circuits like andTerms, so `a OR b OR c` means `a OR (b AND c)`"),
 "C07-D": ("actions", "C07,C06", "dead-letter forward into a topic whose subscription has a FILTER, message with attributes: the forward loads the message with a partial column select, so the filter sees an empty attribute map"),
 "C14-C": ("actions", "C14,C13", "message acked, its retention over but not yet swept, then Seek to a time before its publish: the revive half of seek-to-time lost ExpiresAtGTE(now), so the expired message is delivered again"),
 "C14-D": ("services", "C14,C17", "TTL changed through UpdateSubscription(expiration_policy) and no pull afterwards: expires_at is computed from the OLD ttl (Get shows the new one), so the sweep expires it too early / too late"),
 "C12-C": ("services", "C12", "CreateSubscription of an already-live name while the topic named in the request is deleted / missing: the topic lookup was moved in front of the name check, so NotFound is answered instead of AlreadyExists"),
 "C12-D": ("services", "C12,C15", "a snapshot exists when its topic is deleted: the clean-up filters snapshots by the wrong column (id instead of topic_id), so Get/List still show it and the name is not reusable until the prune job runs"),
 "C19-C": ("services", "C19", "an exchange that is BOTH slow (>= 1 s) and failing (500 / transport error): the slow/fast classification moved to the end and overrides the nack queue, so the message is acknowledged"),
 "C19-D": ("services", "C19", "payload whose base64 contains '+' or '/' (e.g. '?', '~' or non-ASCII at the right alignment): the envelope uses the URL-safe alphabet"),
 "C18-C": ("faults", "C18", "a fault injected with an EMPTY parameter value and a call that omits that key: presence is no longer checked, so the call matches and consumes the count"),
 "C18-D": ("faults", "C18", "listing taken between the decrement that exhausts a fault and the asynchronous prune, or a fault added with count <= 0: Current() no longer filters Count > 0"),
 "C17-C": ("services", "C17", "an UpdateSubscription whose mask names only CLEARING paths (filter \"\", retry_policy / push_config / dead_letter_policy absent): the no-op guard looks at set fields only, so the update is silently dropped"),
 "C17-D": ("services", "C17,C04", "CreateSubscription with a retry_policy that has only maximum_backoff: SetMaxBackoff was nested under the minimum_backoff branch, so the policy is not stored (Get shows none, the cap is the default)"),
 "C06-C": ("actions", "C06,C01", "the dead-letter topic has a live FILTERED subscription the exhausted message does not satisfy: the forward loop returns at the first filter miss, nobody gets the message and the source delivery is not retired"),
 "C06-D": ("actions", "C06,C14", "attempts exhausted, silent subscriber, retention over, sweep before the expired-deliveries prune: the sweep lost ExpiresAtGT(now) and forwards an expired message"),
 "C08-C": ("services", "C08", "a name that once held a valid filter, then UpdateSubscription(filter) / delete + re-create with a non-sentence: a parse cache keyed by name returns the old result without looking at the text"),
 "C08-D": ("filter", "C08", "double negation written with parentheses, NOT (NOT attributes:x): the renderer drops parentheses around a single term and produces `NOT NOT ...`, which does not parse"),
 "C04-C": ("actions", "C04", "no configured maximum backoff and min x 1.1^n above 10 minutes (1 h minimum; or attempt >= 43 with defaults): the default cap moved inside the `max configured` branch, the lease grows without bound"),
 "C04-D": ("actions", "C04,C10", "a pull that WAITED (blocked W seconds) before the message was published: `now` is captured once before the long poll, so the lease starts W seconds in the past"),
 "C02-C": ("services", "C02,C01", "same class as C01-B found independently: a filter miss on one subscription `break`s the publish fan-out for its siblings"),
 "C02-D": ("services", "C02,C07", "same class as C07-B found independently: parsed-filter cache keyed by subscription name survives UpdateSubscription(filter) and delete + re-create"),
 "C13-C": ("actions", "C13,C14", "subscription whose TTL differs from its message retention, seek-to-time that revives something: the fresh retention is taken from TTL instead of MessageTTL"),
 "C13-D": ("actions", "C13", "snapshot taken while the oldest unacked message is leased and a newer one has never been pulled: `oldest unacked` is chosen by attempt_at instead of published_at"),
 "C16-C": ("services", "C16", "ListTopicSubscriptions with a NEGATIVE page_size and an empty page: `!= 0` instead of `> 0`, index out of range -> handler panic"),
 "C16-D": ("services", "C16,C08", "(against the pre-F18 guard) string literal ending in an escaped backslash followed by deep nesting: look-behind escape handling blinds the nesting pre-scan"),
 "C05-C": ("actions", "C05,C13", "ordered sub + sibling sub; the sibling acks a LATER same-key message; snapshot + seek of the ordered sub: the snapshot's acked list leaks sibling acks, a middle element is completed and its successor released"),
 "C05-D": ("actions", "C05", "ordered sub with dead-letter policy, predecessor on its LAST permitted attempt (attempts == max) and still leased: it stops blocking its key"),
 "C15-C": ("actions", "C15,C01", "prune-expired-deliveries with a non-zero MinAge: the sign is flipped, so outstanding deliveries expiring within the next MinAge are deleted"),
 "C15-D": ("actions", "C15,C06", "regression of F11 through another slip: the dead-letter guard of prune-deleted-topics compares the wrong table's id, a live subscription loses its dead-letter policy"),
 "C01-C": ("actions", "C01,C15", "same change as C15-C found independently (expired-delivery pruner, MinAge sign)"),
 "C01-D": ("services", "C01,C07", "same class as C07-B / C02-D found independently: stale parsed-filter cache loses messages that satisfy the NEW filter"),
 "C11-C": ("actions", "C11", "an ack on the stream fully digested before the slow Send of that very message returns: `pending` is filled after the send, leaving a phantom entry"),
 "C11-D": ("services", "C11", "gRPC stream with a message limit and NO byte limit (never sends) or a byte limit and no message limit (byte limit overwritten with 10 MiB): wrong identifier in effectiveFlowControl"),
 "C03-C": ("actions", "C03,C13", "ack, then Seek(time) with publish time < T < end of the last lease: the un-ack half compares attempt_at instead of published_at"),
 "C03-D": ("actions", "C03,C02,C13", "two subscriptions on one topic, snapshot seek on one: the un-ack update is scoped by the snapshot's topic, so the bystander's acked messages come back"),
 "C10-C": ("actions", "C10", "regression of F2 through another slip (`break` for `continue` in WakePublishListeners): one zero-deadline nack spanning two subscriptions, waiter on the later one"),
 "C10-D": ("actions", "C10", "a pull waiting on the DEAD-LETTER subscription while a forward arrives: the wake-up moved from deliverToSubscription into PublishMessage only"),
 "C09-C": ("actions", "C09", "the request context cancelled after the last statement and before COMMIT (database/sql has already rolled back): DoTx now swallows the ErrTxDone of Commit and reports success for work that was not stored"),
 "C09-D": ("actions", "C09", "a statement-level failure exactly at the dead-letter topic lookup (or its subscriptions load) of a due dead-letter move: the error is treated like `topic deleted`, the delivery is completed without a forward and the transaction commits"),
}
only = sys.argv[1:]
for sid, (pkg, checks, needs) in SEEDS.items():
    if only and sid not in only:
        continue
    prop, var = sid.split("-")
    print("#####", sid, flush=True)
    # changes written against the nesting guard as it was before the F18 repair rewrote it
    base = {"C08-B": "a033c39~1", "C16-D": "a033c39~1"}.get(sid, "HEAD")
    p = subprocess.run(["python3", "/verif/tools/seedeval.py", prop, var, "--pkg", pkg, "--checks", checks, "--base", base], capture_output=True, text=True)
    for l in p.stdout.splitlines():
        if l.startswith("== ") or l.strip().startswith("rule=") or '"confirmed"' in l:
            print(l[:240], flush=True)
    mp = f"/verif/seeded/{sid}/meta.json"
    if os.path.exists(mp):
        m = json.load(open(mp))
        m["breaks_property"] = prop
        m["needs_to_manifest"] = needs
        caught = {}
        for c, tiers in (m.get("checks") or {}).items():
            for tier, r in tiers.items():
                if r["exit"] == 1:
                    caught.setdefault(c, tier)
        m["caught_by"] = caught
        json.dump(m, open(mp, "w"), indent=1)
print("##### DONE")
