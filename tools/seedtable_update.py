#!/usr/bin/env python3
"""Regenerate the table between the SEEDTABLE markers of DESIGN.md."""
import subprocess, re
t = subprocess.run(["python3", "/verif/tools/seedtable.py"], capture_output=True, text=True).stdout
p = "/verif/DESIGN.md"
s = open(p).read()
a = s.index("<!-- SEEDTABLE:BEGIN -->") + len("<!-- SEEDTABLE:BEGIN -->")
b = s.index("<!-- SEEDTABLE:END -->")
open(p, "w").write(s[:a] + "\n" + t + s[b:])
