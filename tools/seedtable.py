#!/usr/bin/env python3
"""Print the markdown table of DESIGN.md section 8.6 from /verif/seeded/*/meta.json."""
import glob, json, os

rows = []
for mp in sorted(glob.glob("/verif/seeded/*/meta.json")):
    m = json.load(open(mp))
    sid = os.path.basename(os.path.dirname(mp))
    if m.get("obsolete"):
        rows.append((sid, m.get("needs_to_manifest", ""), m["obsolete"], ""))
        continue
    if not m.get("confirmed"):
        rows.append((sid, m.get("needs_to_manifest", ""), "not confirmed: " + (m.get("why") or "; ".join(m.get("ran", [])))[:160], ""))
        continue
    caught = m.get("caught_by") or {}
    own = sid.split("-")[0]
    parts = []
    for c in sorted(caught, key=lambda c: (c != own, c)):
        parts.append(f"{c} {caught[c]}")
    missed = [c for c in (m.get("checks") or {}) if c not in caught]
    res = ", ".join(parts) if parts else "**not caught**"
    if missed and parts:
        res += " (not by " + ", ".join(missed) + ")"
    if m.get("note"):
        res += "; " + m["note"]
    rows.append((sid, m.get("needs_to_manifest", ""), res, ""))

print("| change | what it needs to manifest | caught by (first tier that reports it) |")
print("|--------|---------------------------|----------------------------------------|")
for sid, needs, res, _ in rows:
    print(f"| {sid} | {needs.replace(chr(124), chr(47))} | {res.replace(chr(124), chr(47))} |")
