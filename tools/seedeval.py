#!/usr/bin/env python3
"""Confirm an independently written breaking change and run the checks against it.

  seedeval.py <prop> <A|B> --pkg <package dir of the demo, e.g. actions> [--run <TestName regex>] [--checks C05,C01] [--thorough]

Source: /tmp/seed/<prop>-out/<variant>/ if it exists, else the stored copy /verif/seeded/<prop>-<variant>/ {patch.diff, demo_test.go|*.go, README.md}
Everything happens in a scratch worktree under /tmp (removed afterwards); /repo is never modified.
Result: /verif/seeded/<prop>-<A|B>/{patch.diff, demo files, README.md, meta.json}
"""
import argparse, json, os, shutil, subprocess, sys, glob, time

ENV = dict(os.environ, GOFLAGS="-mod=mod", GOPROXY="off")
ENV.pop("GOSUMDB", None)


def sh(cmd, cwd=None, timeout=1800):
    p = subprocess.run(cmd, cwd=cwd, env=ENV, shell=isinstance(cmd, str), capture_output=True, text=True, timeout=timeout)
    return p.returncode, p.stdout + p.stderr


def main():
    ap = argparse.ArgumentParser()
    ap.add_argument("prop")
    ap.add_argument("variant")
    ap.add_argument("--pkg", required=True)
    ap.add_argument("--run", default="")
    ap.add_argument("--checks", default="")
    ap.add_argument("--thorough", action="store_true")
    ap.add_argument("--src", default="")
    ap.add_argument("--base", default="HEAD", help="commit of /repo the change was written against (default HEAD)")
    a = ap.parse_args()
    src = a.src or f"/tmp/seed/{a.prop}-out/{a.variant}"
    if not os.path.isdir(src):
        src = f"/verif/seeded/{a.prop}-{a.variant}"  # the stored copy
    name = f"{a.prop}-{a.variant}"
    wt = f"/tmp/sv-{name}"
    subprocess.run(["git", "-C", "/repo", "worktree", "remove", "--force", wt], capture_output=True)
    shutil.rmtree(wt, ignore_errors=True)
    rc, o = sh(["git", "-C", "/repo", "worktree", "add", "--detach", "-q", wt, a.base])
    if rc != 0:
        print(o); return 2
    meta = {"property": a.prop, "variant": a.variant, "source": src, "ran": [], "base": a.base}
    try:
        patch = os.path.join(src, "patch.diff")
        rc, o = sh(["git", "-C", wt, "apply", "--whitespace=nowarn", patch])
        if rc != 0:
            print("PATCH DOES NOT APPLY\n" + o); meta["confirmed"] = False; meta["why"] = "patch does not apply to current HEAD: " + o[-300:]; return finish(a, name, src, meta)
        # 1. existing suite with the change
        rc, o = sh("go test -vet=off -count=1 $(go list ./... | grep -v cmd/mmmbbb) 2>&1 | tail -30", cwd=wt)
        suite_ok = ("FAIL" not in o) and rc == 0
        tries = 1
        while not suite_ok and tries < 3:  # a deterministic failure fails three times
            # TestMessageStreamer_Go/cancel_with_no_messages is flaky under CPU load on the unchanged tree too
            rc, o = sh("go test -vet=off -count=1 $(go list ./... | grep -v cmd/mmmbbb) 2>&1 | tail -30", cwd=wt)
            suite_ok = ("FAIL" not in o) and rc == 0
            tries += 1
        meta["suite_runs"] = tries
        meta["suite_passes_with_change"] = suite_ok
        meta["ran"].append("go test -vet=off -count=1 ./... (minus cmd/mmmbbb) with the change: " + ("pass" if suite_ok else "FAIL"))
        if not suite_ok:
            print(o[-2000:])
        # 2. demonstration with / without the change
        demos = [f for f in glob.glob(os.path.join(src, "*.go"))]  # demo_test.go (or demo.go)
        for d in demos:
            shutil.copy(d, os.path.join(wt, a.pkg, os.path.basename(d)))
        runarg = f"-run '{a.run}'" if a.run else ""
        rc1, o1 = sh(f"go test -vet=off -count=1 {runarg} ./{a.pkg}/ 2>&1 | tail -40", cwd=wt)
        fails_with = "FAIL" in o1 or "panic:" in o1
        sh(["git", "-C", wt, "apply", "-R", "--whitespace=nowarn", patch])
        rc2, o2 = sh(f"go test -vet=off -count=1 {runarg} ./{a.pkg}/ 2>&1 | tail -40", cwd=wt)
        passes_without = ("FAIL" not in o2) and ("ok" in o2)
        for _ in range(2):  # the package's own tests can flake under load: a deterministic failure fails three times
            if passes_without:
                break
            rc2, o2 = sh(f"go test -vet=off -count=1 {runarg} ./{a.pkg}/ 2>&1 | tail -40", cwd=wt)
            passes_without = ("FAIL" not in o2) and ("ok" in o2)
        meta["demo_fails_with_change"] = fails_with
        meta["demo_passes_without_change"] = passes_without
        meta["ran"].append(f"go test {runarg} ./{a.pkg}/ with the change: {'FAIL (as required)' if fails_with else 'pass (NOT a demonstration)'}; without: {'pass' if passes_without else 'FAIL'}")
        if not fails_with:
            print("demo with change:\n" + o1[-1500:])
        if not passes_without:
            print("demo without change:\n" + o2[-1500:])
        for d in demos:
            os.remove(os.path.join(wt, a.pkg, os.path.basename(d)))
        meta["confirmed"] = bool(suite_ok and fails_with and passes_without)
        # 3. our checks against the change
        sh(["git", "-C", wt, "apply", "--whitespace=nowarn", patch])
        checks = [c for c in (a.checks or a.prop).split(",") if c]
        meta["checks"] = {}
        env = dict(ENV, VERIF_REPO=wt)
        for c in checks:
            for tier in (["quick", "thorough"] if True else ["quick"]):
                if tier == "thorough" and (meta["checks"].get(c, {}).get("quick", {}).get("exit") == 1) and not a.thorough:
                    continue
                t0 = time.time()
                p = subprocess.run(["/verif/check", c, "--tier", tier], env=env, capture_output=True, text=True)
                lines = [l for l in (p.stdout + p.stderr).splitlines() if l.startswith(("VIOLATION", "KNOWN-FINDING", "  rule=", "[check] C", "[check] incon", "[check] build"))]
                meta["checks"].setdefault(c, {})[tier] = {"exit": p.returncode, "seconds": round(time.time() - t0), "lines": [l[:400] for l in lines[:6]]}
                print(f"== {name} check {c} {tier}: exit {p.returncode}")
                for l in lines[:4]:
                    print("   ", l[:300])
        return finish(a, name, src, meta)
    finally:
        subprocess.run(["git", "-C", "/repo", "worktree", "remove", "--force", wt], capture_output=True)
        shutil.rmtree(wt, ignore_errors=True)
        subprocess.run(["git", "-C", "/repo", "worktree", "prune"], capture_output=True)


def finish(a, name, src, meta):
    out = f"/verif/seeded/{name}"
    os.makedirs(out, exist_ok=True)
    for f in glob.glob(os.path.join(src, "*")):
        if os.path.isfile(f) and os.path.abspath(os.path.dirname(f)) != os.path.abspath(out):
            shutil.copy(f, os.path.join(out, os.path.basename(f)))
    meta["demo_package"] = a.pkg
    with open(os.path.join(out, "meta.json"), "w") as f:
        json.dump(meta, f, indent=1)
    print(json.dumps({k: v for k, v in meta.items() if k not in ("checks", "ran")}, indent=1))
    return 0


if __name__ == "__main__":
    sys.exit(main())
