#!/usr/bin/env python3
"""Development aid: apply a named source mutation to /repo, run checks, revert.
   usage: mutate.py <name> <check-id>[,<check-id>...] [--scale X] [--tier T]
Never leaves /repo modified (git checkout -- . afterwards)."""
import subprocess, sys, os
M = {
 # name: (file, old, new)
 "c04-attempts": ("actions/get-subscription-messages.go", "NextDelayFor(sub, d.Attempts+1)", "NextDelayFor(sub, d.Attempts)"),
 "c04-no-addattempts": ("actions/get-subscription-messages.go", "\t\t\tAddAttempts(1).\n", ""),
 "c04-modack-gt": ("actions/delay-deliveries.go", "delivery.AttemptAtLT(newAttemptAt)", "delivery.AttemptAtGT(newAttemptAt)"),
 "c04-factor": ("actions/get-subscription-messages.go", "retryBackoffFactor = 1.1", "retryBackoffFactor = 1.0"),
 "c03-delay-completed": ("actions/delay-deliveries.go", "\t\tdelivery.IDIn(a.params.IDs...),\n\t\tdelivery.CompletedAtIsNil(),\n", "\t\tdelivery.IDIn(a.params.IDs...),\n"),
 "c03-nack-completed": ("actions/nack-deliveries.go", "\t\t\tdelivery.CompletedAtIsNil(),\n", ""),
 "c06-gt": ("actions/get-subscription-messages.go", "d.Attempts >= int(*sub.MaxDeliveryAttempts)", "d.Attempts > int(*sub.MaxDeliveryAttempts)"),
 "c06-nofilter": ("actions/delivery-utils.go", "if s.MessageFilter != nil && *s.MessageFilter != \"\" {", "if s.MessageFilter != nil && *s.MessageFilter != \"\" && loggerName == \"actions/publish-message\" {"),
 "c06-sweep-future": ("actions/dead-letter-deliveries.go", "\t\t\tdelivery.AttemptAtLTE(now),\n", ""),
 "c13-gte": ("actions/seek-subscription-to-time.go", "delivery.PublishedAtGT(a.params.Time)", "delivery.PublishedAtGTE(a.params.Time)"),
 "c13-noexpires": ("actions/seek-subscription-to-time.go", "\t\tSetExpiresAt(now.Add(time.Duration(sub.MessageTTL))).\n", ""),
 "c13-ignore-acked-ids": ("actions/seek-subscription-to-snapshot.go", "\t\t\tdelivery.MessageIDNotIn(snap.AckedMessageIDs...),\n", ""),
 "c14-refresh-nonempty": ("actions/get-subscription-messages.go", "\t// refresh the subscription expiration\n\terr := tx.Subscription.UpdateOne(sub).", "\t// refresh the subscription expiration\n\tif len(deliveries) == 0 {\n\t\ta.results = &getSubscriptionMessagesResults{}\n\t\treturn nil\n\t}\n\terr := tx.Subscription.UpdateOne(sub)."),
 "c14-expires-ttl": ("actions/delivery-utils.go", "SetExpiresAt(now.Add(time.Duration(s.MessageTTL)))", "SetExpiresAt(now.Add(time.Duration(s.TTL)))"),
 "c14-delay-ordered": ("actions/delivery-utils.go", "SetAttemptAt(now.Add(time.Duration(s.DeliveryDelay)))", "SetAttemptAt(now)"),
 "c14-expire-gt": ("actions/delete-expired-subscriptions.go", "subscription.ExpiresAtLT(now)", "subscription.ExpiresAtGT(now)"),
 "c01-drop-second-sub": ("actions/publish-message.go", "for _, s := range t.Edges.Subscriptions {", "for i, s := range t.Edges.Subscriptions {\n\t\tif i == 1 {\n\t\t\tcontinue\n\t\t}"),
 "c01-nack-completes": ("actions/nack-deliveries.go", "SetAttemptAt(now.Add(fuzzedDelay)).", "SetAttemptAt(now.Add(fuzzedDelay)).SetCompletedAt(now)."),
 "c01-prune-attemptat": ("actions/prune-expired-deliveries.go", "delivery.ExpiresAtLT(time.Now())", "delivery.AttemptAtLT(time.Now())"),
 "c02-swap-attrs": ("services/grpc-subscriber.go", "ret.Message.OrderingKey = *m.OrderKey", "ret.Message.OrderingKey = *m.OrderKey + \"x\""),
 "c02-ack-by-message": ("actions/ack-deliveries.go", "delivery.IDIn(a.params.ids...),", "delivery.Or(delivery.IDIn(a.params.ids...), delivery.MessageIDIn(a.params.ids...)),"),
 "c05-no-join": ("actions/get-subscription-messages.go", "if sub.OrderedDelivery {", "if sub.OrderedDelivery && false {"),
 "c05-ignore-expiry": ("actions/get-subscription-messages.go", "\t\t\t\tsql.LTE(t.C(delivery.FieldExpiresAt), now),\n", ""),
 "c05-asc": ("actions/delivery-utils.go", "Order(ent.Desc(delivery.FieldPublishedAt))", "Order(ent.Asc(delivery.FieldPublishedAt))"),
 "c07-prefix-contains": ("filter/evaluate.go", "strings.HasPrefix(v, e.Value)", "strings.Contains(v, e.Value)"),
 "c07-ne-absent": ("filter/evaluate.go", "\tv, ok := attrs[e.Name]\n\tif !ok {\n\t\treturn false, nil\n\t}\n\tswitch e.Op {", "\tv, ok := attrs[e.Name]\n\tif !ok {\n\t\treturn e.Op == OpNotEqual, nil\n\t}\n\tswitch e.Op {"),
 "c08-lookahead": ("filter/parser.go", "participle.UseLookahead(50)", "participle.UseLookahead(1)"),
 "c08-store-before-validate": ("services/grpc-subscriber.go", "return status.Errorf(codes.InvalidArgument, \"Invalid filter: %v\", err)", "subUpdate.SetMessageFilter(req.Subscription.Filter)\n\t\t\t\t\t\t_ = err\n\t\t\t\t\t\tcontinue"),
 "c09-commit-on-error": ("ent/client-addons.go", "\t\tif !success {\n\t\t\terr = tx.Rollback()\n\t\t\top = \"Rollback\"", "\t\tif !success && false {\n\t\t\terr = tx.Rollback()\n\t\t\top = \"Rollback\""),
 "c09-wake-before-commit": ("actions/notify.go", "\t\t\terr := c.Commit(ctx, tx)\n\t\t\tif err == nil {\n\t\t\t\tWakePublishListeners(false, subIDs...)\n\t\t\t}\n\t\t\treturn err", "\t\t\tWakePublishListeners(false, subIDs...)\n\t\t\treturn c.Commit(ctx, tx)"),
 "c09-seek-swallow": ("actions/seek-subscription-to-time.go", "\t\tSetAttemptAt(now).\n\t\tSave(ctx)\n\tif err != nil {\n\t\treturn err\n\t}", "\t\tSetAttemptAt(now).\n\t\tSave(ctx)\n\tif err != nil {\n\t\terr = nil\n\t}"),
 "c09-dl-complete-first": ("actions/ack-deliveries.go", "\tif err != nil {\n\t\treturn err\n\t}\n\n\ttx.OnCommit(", "\tif err != nil {\n\t\treturn err\n\t}\n\tfor _, s := range subIDs {\n\t\tWakePublishListeners(false, s)\n\t}\n\n\ttx.OnCommit("),
 "c12-snap-prefix": ("services/grpc.go", 'return project + "/snapshots/"', 'return project + "/subscriptions/"'),
 "c12-list-deleted": ("services/grpc-publisher.go", "\t\t\tnameHasExactPrefix(topic.FieldName, projectTopicPrefix(req.Project)),\n\t\t\ttopic.DeletedAtIsNil(),\n", "\t\t\tnameHasExactPrefix(topic.FieldName, projectTopicPrefix(req.Project)),\n"),
 "c12-token-gte": ("services/grpc-subscriber.go", "predicates = append(predicates, subscription.IDGT(pageID))", "predicates = append(predicates, subscription.IDGTE(pageID))"),
 "c12-prefix-noslash": ("services/grpc.go", 'return project + "/topics/"', 'return project + "/topics"'),
 "c12-create-nolivecheck": ("actions/create-subscription.go", "\t} else if exists {\n\t\treturn ErrExists\n\t}\n\n\ttopic, err := findTopic", "\t} else if exists && false {\n\t\treturn ErrExists\n\t}\n\n\ttopic, err := findTopic"),
 "c12-case-insensitive": ("services/grpc-subscriber.go", "\t\t\tnameHasExactPrefix(subscription.FieldName, projectSubscriptionPrefix(req.Project)),\n", ""),
 "c17-sign": ("internal/sqltypes/interval.go", "\t\ttimeSign = -1\n", "\t\ttimeSign = 1\n"),
 "c17-trunc-seconds": ("services/grpc-subscriber.go", "MessageRetentionDuration: durationpb.New(time.Duration(subscription.MessageTTL)),", "MessageRetentionDuration: durationpb.New(time.Duration(subscription.MessageTTL).Truncate(time.Second)),"),
 "c17-labels-writes-filter": ("services/grpc-subscriber.go", "\t\t\t\tsubUpdate.SetLabels(req.Subscription.Labels)\n", "\t\t\t\tsubUpdate.SetLabels(req.Subscription.Labels)\n\t\t\t\tif req.Subscription.Filter != \"\" {\n\t\t\t\t\tsubUpdate.SetMessageFilter(req.Subscription.Filter)\n\t\t\t\t}\n"),
 "c17-month31": ("internal/sqltypes/interval.go", "month = 30 * day", "month = 31 * day"),
 "c17-maxb-lost": ("actions/create-subscription.go", "\tif a.params.MaxBackoff > 0 {\n\t\tcreate = create.SetMaxBackoff(sqltypes.IntervalPtr(a.params.MaxBackoff))\n\t}\n", ""),
 "f11-revert": ("actions/prune-deleted-topics.go", "sql.IsNull(t.C(subscription.FieldDeletedAt)),", "sql.IsNull(t.C(subscription.FieldDeletedAt)), sql.False(),"),
 "f10-revert": ("actions/prune-deleted-topics.go", "\tif len(ids) != 0 {", "\tif len(ids) != 0 && false {"),
 "c18-no-continue": ("faults/set.go", "it's <3%\n\t\t\t\tcontinue\n", "it's <3%\n"),
 "c18-superset": ("faults/description.go", "\t\tif vv, ok := params[p]; !ok {\n\t\t\treturn false\n\t\t} else if vv != v {", "\t\tif vv, ok := params[p]; !ok {\n\t\t\tcontinue\n\t\t} else if vv != v {"),
 "c18-pool-leak": ("grpc/faults.go", "\tfor k := range params {\n\t\tdelete(params, k)\n\t}\n", ""),
 "c18-nonatomic": ("faults/set.go", "remaining := atomic.AddInt64(&d.Count, -1)", "remaining := atomic.LoadInt64(&d.Count) - 1\n\t\tatomic.StoreInt64(&d.Count, remaining)"),
 "f2-revert": ("actions/notify.go", "\t\t\t// nobody waits on this subscription, the others may still have waiters\n\t\t\tcontinue", "\t\t\treturn"),
 "c10-awaiter-late": ("actions/get-subscription-messages.go", "\t\tCancelPublishAwaiter(*a.params.ID, pubAwaiter)\n\t\tpubAwaiter = PublishAwaiter(*a.params.ID)\n\n\t\terr := runTx(", "\t\terr := runTx("),
 "c10-no-wake-delay": ("actions/delay-deliveries.go", "\tif len(subIDs) != 0 {\n\t\tnotifyPublish(tx, subIDs...)\n\t}\n", ""),
 "c10-no-wake-ack": ("actions/ack-deliveries.go", "\t\t\tfor _, s := range subIDs {\n\t\t\t\tWakePublishListeners(false, s)\n\t\t\t}\n", ""),
 "c10-no-wake-dl": ("actions/delivery-utils.go", "\t\t\tWakePublishListeners(false, data.DeliverySubscriptionID)\n", ""),
 "c10-no-wake-seek": ("actions/seek-subscription-to-time.go", "\tif numAcked != 0 || numDeAcked != 0 {\n\t\tnotifyPublish(tx, sub.ID)\n\t}\n", ""),
 "f6-revert": ("actions/message-streamer.go", "\t\t\t\tif delay <= 0 {", "\t\t\t\tif delay <= 0 && false {"),
 "f14-revert": ("actions/message-streamer.go", "\t\t\t} else if results.NumDeadLettered == 0 {", "\t\t\t} else if results.NumDeadLettered == 0 && false {"),
 "c11-no-subtract": ("actions/message-streamer.go", "\t\t\t\t\tcurFc.MaxMessages--\n", ""),
 "c11-no-strict": ("actions/message-streamer.go", "MaxBytesStrict: anyPending,", "MaxBytesStrict: anyPending && false,"),
 "c11-nack-keeps-pending": ("actions/message-streamer.go", "\t\t\t\tfor _, id := range msg.Nack {\n\t\t\t\t\tdelete(pending, id)\n\t\t\t\t}\n", ""),
 "c11-no-refresh-wake": ("actions/message-streamer.go", "\t\t\tif removedPending {", "\t\t\tif removedPending && false {"),
 "c19-3xx-success": ("actions/http-push-streamer.go", "case http.StatusProcessing, http.StatusOK,", "case http.StatusProcessing, http.StatusOK, http.StatusNotModified, http.StatusMovedPermanently,"),
 "c19-ack-on-error": ("actions/http-push-streamer.go", "\t\t\toutcome, httpStatus = \"error\", \"xxx\"\n\t\t\tq = c.nackQueue", "\t\t\toutcome, httpStatus = \"error\", \"xxx\""),
 "c19-drop-orderingkey": ("actions/http-push-streamer.go", "\tif del.OrderKey != nil {\n\t\tbodyObject.Message.OrderingKey = *del.OrderKey\n\t}", "\tif del.OrderKey != nil && false {\n\t\tbodyObject.Message.OrderingKey = *del.OrderKey\n\t}"),
 "c19-no-base64": ("actions/http-push-streamer.go", "payload64 := base64.StdEncoding.EncodeToString(del.Payload)", "payload64 := string(del.Payload); _ = base64.StdEncoding"),
 "c19-window-1000": ("actions/http-push-streamer.go", "\t\tmaxMessages:      1,", "\t\tmaxMessages:      1000,"),
 "c19-204-nack": ("actions/http-push-streamer.go", "http.StatusAccepted, http.StatusNoContent:", "http.StatusAccepted:"),
 "c04-split-tx": ("actions/get-subscription-messages.go", """\t\t\tif len(deliveries) != 0 || timerTx != nil && timerTx.Dialect() == dialect.SQLite {
\t\t\t\tif err = a.applyResults(ctx, tx, sub, deliveries); err != nil {
\t\t\t\t\treturn err
\t\t\t\t}
\t\t\t\ttimer.Succeeded(func() { getSubscriptionMessagesCounter.Add(float64(len(a.results.Deliveries))) })
\t\t\t} else {""", """\t\t\tif len(deliveries) != 0 || timerTx != nil && timerTx.Dialect() == dialect.SQLite {
\t\t\t\tsplit = deliveries
\t\t\t} else {"""),
}
def main():
    name, checks = sys.argv[1], sys.argv[2].split(",")
    extra = sys.argv[3:]
    f, old, new = M[name]
    p = os.path.join("/repo", f)
    s = open(p).read()
    if old not in s:
        print("PATTERN NOT FOUND", name); sys.exit(3)
    s2 = s.replace(old, new, 1)
    if name == "c04-split-tx":
        s2 = s2.replace("\t\terr := runTx(func(tx *ent.Tx) error {\n\t\t\t// re-check the sub before we query it", "\t\tvar split []*ent.Delivery\n\t\terr := runTx(func(tx *ent.Tx) error {\n\t\t\t// re-check the sub before we query it", 1)
        s2 = s2.replace("\t\tif err != nil {\n\t\t\ttimer.ReportRollback()\n\t\t\treturn err\n\t\t}\n\t\tif a.results != nil {", "\t\tif err == nil && split != nil {\n\t\t\terr = runTx(func(tx *ent.Tx) error { return a.applyResults(ctx, tx, sub, split) })\n\t\t}\n\t\tif err != nil {\n\t\t\ttimer.ReportRollback()\n\t\t\treturn err\n\t\t}\n\t\tif a.results != nil {", 1)
    open(p, "w").write(s2)
    try:
        for c in checks:
            r = subprocess.run(["/verif/check", c] + extra, capture_output=True, text=True)
            tail = [l for l in (r.stdout + r.stderr).splitlines() if l.startswith(("VIOLATION", "KNOWN", "[check]", "  rule="))]
            print(f"== {name} / {c}: exit {r.returncode}")
            for l in tail[-6:]:
                print("   ", l[:300])
    finally:
        subprocess.run(["git", "-C", "/repo", "checkout", "--", "."])
main()
